use async_graphql::*;
use async_graphql::dynamic as d;
struct G;
impl Guard for G { async fn check(&self, _ctx: &Context<'_>) -> Result<()> { Err("denied".into()) } }
struct Node;
#[Object]
impl Node {
    async fn ok(&self) -> i32 { 1 }
    async fn res_opt_err(&self) -> Result<Option<i32>> { Err("E1".into()) }
    async fn res_err(&self) -> Result<i32> { Err("E3".into()) }
    #[graphql(guard = "G")]
    async fn guarded(&self) -> Option<i32> { Some(1) }
    #[graphql(guard = "G")]
    async fn guarded_nn(&self) -> i32 { 1 }
    async fn arg(&self, n: i32) -> Option<i32> { Some(n) }
}
struct Query;
#[Object]
impl Query {
    async fn node(&self) -> Option<Node> { Some(Node) }
    async fn ok(&self) -> i32 { 1 }
}
fn main() {
    let schema = Schema::new(Query, EmptyMutation, EmptySubscription);
    for q in ["{ ok node { ok resOptErr } }", "{ ok node { ok guarded } }", "{ ok node { ok guardedNn } }", "{ ok node { ok resErr } }", "query($n: Int = 3000000000){ ok node { ok arg(n: $n) } }"] {
        let r = futures_executor::block_on(schema.execute(q));
        println!("{q}\n  => {}", serde_json::to_string(&r).unwrap());
    }
    let node = d::Object::new("Node")
        .field(d::Field::new("ok", d::TypeRef::named_nn(d::TypeRef::INT), |_| d::FieldFuture::new(async { Ok(Some(Value::from(1))) })))
        .field(d::Field::new("err", d::TypeRef::named(d::TypeRef::INT), |_| d::FieldFuture::new(async { Err::<Option<Value>, _>(Error::new("E")) })))
        .field(d::Field::new("errnn", d::TypeRef::named_nn(d::TypeRef::INT), |_| d::FieldFuture::new(async { Err::<Option<Value>, _>(Error::new("E")) })))
        .field(d::Field::new("list", d::TypeRef::named_list(d::TypeRef::named_nn(d::TypeRef::INT).to_string().trim_end_matches('!')), |_| d::FieldFuture::new(async { Ok(Some(Value::from(vec![1,2]))) })))
        .field(d::Field::new("nullnn", d::TypeRef::named_nn(d::TypeRef::INT), |_| d::FieldFuture::new(async { Ok(None::<Value>) })));
    let query = d::Object::new("Query")
        .field(d::Field::new("node", d::TypeRef::named("Node"), |_| d::FieldFuture::new(async { Ok(Some(d::FieldValue::owned_any(()))) })))
        .field(d::Field::new("nodes", d::TypeRef::named_list("Node"), |_| d::FieldFuture::new(async { Ok(Some(d::FieldValue::list(vec![d::FieldValue::owned_any(()), d::FieldValue::owned_any(())]))) })))
        .field(d::Field::new("ok", d::TypeRef::named_nn(d::TypeRef::INT), |_| d::FieldFuture::new(async { Ok(Some(Value::from(1))) })));
    let schema = d::Schema::build("Query", None, None).register(node).register(query).finish().unwrap();
    for q in ["{ ok node { ok err } }", "{ ok node { ok errnn } }", "{ ok node { ok nullnn } }", "{ ok nodes { ok errnn } }"] {
        let r = futures_executor::block_on(schema.execute(q));
        println!("{q}\n  => {}", serde_json::to_string(&r).unwrap());
    }
}
