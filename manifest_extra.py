# checks added after the exec family; merged by gen_manifest.py
EXTRA_CLAIMED = {}
EXTRA_NA = {
 "C12": "check not built yet (planned: transport-facing surfaces, DESIGN §3 C12)",
 "C23": "check not built yet (planned, DESIGN §3 C23)",
 "C24": "check not built yet (planned, DESIGN §3 C24)",
 "C25": "check not built yet (planned, DESIGN §3 C25)",
 "C26": "check not built yet (planned, DESIGN §3 C26)",
 "C28": "check not built yet (planned, DESIGN §3 C28)",
 "C29": "check not built yet (planned, DESIGN §3 C29)",
 "C31": "check not built yet (planned, DESIGN §3 C31)",
}
