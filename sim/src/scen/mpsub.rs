//! C26 — multipart/mixed subscription bodies are well framed.

use std::time::Duration;

use async_graphql::{http::create_multipart_mixed_stream, Name, PathSegment, Pos, Response, ServerError, Value};
use futures_util::StreamExt;
use indexmap::IndexMap;
use serde_json::{json, Value as J};

use crate::core::{
    check::{CaseOut, CheckDef},
    sim::{self, chance, draw, SimTimer},
};

pub static DEF: CheckDef = CheckDef {
    id: "C26",
    variants: &["responses-and-heartbeats"],
    run,
    quick_runs: 300_000,
    thorough_runs: 20_000_000,
    rule: "case = create_multipart_mixed_stream over a simulated response source (0-6 responses with generated content: nested values, strings containing CR/LF, quotes and the text '--graphql', errors with paths) and a simulated heartbeat timer (interval 3/10/100us, may fire late); responses, timer expiries and end-of-stream are delivered singly or together before the next poll, also while the generator is suspended between the chunks of one part (lagging consumer); the select! coin is seeded from the tape. Oracle: the concatenated bytes parse with a strict RFC 2046 parser written for the harness (boundary 'graphql', every part 'Content-Type: application/json'); the non-heartbeat bodies, JSON-decoded, equal the delivered responses exactly once and in order; heartbeat bodies are {}; exactly one closing delimiter, last; the stream then ends. Non-trivial = at least one response and one heartbeat in the same body; distinct = distinct event-order hashes.",
    real: &["async_graphql::http::create_multipart_mixed_stream", "asynk-strim generator", "futures-util select! (vendored copy with a seedable PRNG)", "serde_json serialisation of Response"],
    stub: &["response source (simulated channel)", "heartbeat Timer (simulated clock)", "HTTP body consumer"],
    assumptions: &["the vendored futures-util differs from 0.3.34 only in exposing a reseed function for the select! PRNG"],
    restrictions: &[],
    expected_probes: &["probe:response-and-heartbeat-in-one-body", "probe:input-arrived-while-part-half-written", "probe:both-select-branches-ready"],
};

fn gen_string() -> String {
    let pieces = ["a", "--graphql", "\r\n", "\"", "\\", "--graphql--", "\n", "é", "Content-Type: application/json", "{}", "\r\n--graphql\r\n"];
    let n = draw(4);
    (0..n).map(|_| pieces[draw(pieces.len() as u32) as usize]).collect()
}

fn gen_value(depth: u32) -> Value {
    match draw(if depth >= 3 { 4 } else { 6 }) {
        0 => Value::Null,
        1 => Value::from(draw(1000) as i32),
        2 => Value::String(gen_string()),
        3 => Value::Boolean(chance(1, 2)),
        4 => Value::List((0..draw(3)).map(|_| gen_value(depth + 1)).collect()),
        _ => {
            let mut m = IndexMap::new();
            for i in 0..draw(3) {
                m.insert(Name::new(format!("k{i}")), gen_value(depth + 1));
            }
            Value::Object(m)
        }
    }
}

fn gen_response() -> Response {
    let mut r = Response::new(gen_value(0));
    for _ in 0..draw(3) {
        let mut e = ServerError::new(gen_string(), Some(Pos { line: 1 + draw(3) as usize, column: 1 + draw(9) as usize }));
        if chance(1, 2) {
            e.path = vec![PathSegment::Field(gen_string()), PathSegment::Index(draw(3) as usize)];
        }
        r.errors.push(e);
    }
    r
}

/// Strict RFC 2046 parse of a multipart body with boundary `graphql`: returns the part bodies.
fn parse_multipart(body: &[u8]) -> Result<(Vec<Vec<u8>>, bool), String> {
    let dash = b"--graphql";
    let delim = b"\r\n--graphql";
    // RFC 2046: an optional preamble may precede the first delimiter line
    let mut pos = if body.starts_with(dash) {
        dash.len()
    } else if let Some(off) = body.windows(delim.len()).position(|w| w == delim) {
        if body[..off].windows(dash.len()).any(|w| w == dash) {
            return Err("the preamble contains the boundary".to_string());
        }
        off + delim.len()
    } else {
        return Err(format!("no boundary delimiter in the body: {:?}", String::from_utf8_lossy(&body[..body.len().min(40)])));
    };
    let mut parts = vec![];
    loop {
        // after a boundary: "--" (close) or CRLF (part follows)
        if body[pos..].starts_with(b"--") {
            pos += 2;
            if &body[pos..] != b"\r\n" {
                return Err(format!("bytes after the closing delimiter: {:?}", String::from_utf8_lossy(&body[pos..])));
            }
            return Ok((parts, true));
        }
        if !body[pos..].starts_with(b"\r\n") {
            return Err(format!("boundary not followed by CRLF at byte {pos}"));
        }
        pos += 2;
        let header = b"Content-Type: application/json\r\n\r\n";
        if !body[pos..].starts_with(header) {
            return Err(format!("part header is not 'Content-Type: application/json' at byte {pos}: {:?}", String::from_utf8_lossy(&body[pos..(pos + 50).min(body.len())])));
        }
        pos += header.len();
        // body up to the next delimiter
        let rest = &body[pos..];
        let Some(off) = rest.windows(delim.len()).position(|w| w == delim) else {
            return Err(format!("part starting at byte {pos} is not terminated by a delimiter (no closing delimiter?)"));
        };
        parts.push(rest[..off].to_vec());
        pos += off + delim.len();
    }
}

fn run(_variant: usize) -> CaseOut {
    let mut out = CaseOut::default();
    sim::begin_exec("multipart-subscribe");
    let params = sim::draw_params();
    futures_util::__private::async_await::__verif_reseed(0x1234_5678_0000_0000 | draw(1 << 20) as u64);
    let n = draw(7);
    let interval = [10u64, 3, 100][draw(3) as usize];
    let gaps = [0u64, 0, 1, 3, 10, 30, 100];
    let mut t = 0u64;
    let (tx, rx) = sim::channel::<Response>();
    // what the source actually delivered before it ended (events at equal times are ordered by the tape)
    let delivered: std::rc::Rc<std::cell::RefCell<(Vec<J>, bool)>> = Default::default();
    let mut times = vec![];
    for _ in 0..n {
        // arrival times often coincide with heartbeat expiries (multiples of the interval)
        t += if chance(1, 3) { interval - (t % interval) } else { gaps[draw(gaps.len() as u32) as usize] };
        let resp = gen_response();
        let as_json = serde_json::to_value(&resp).unwrap();
        times.push(t);
        let tx2 = tx.clone();
        let d2 = delivered.clone();
        sim::at(t, move || {
            if d2.borrow().1 {
                sim::log_order("mp response after end of source: dropped by the source".into());
                return;
            }
            sim::log_order("mp deliver response".into());
            d2.borrow_mut().0.push(as_json);
            tx2.push(resp)
        });
    }
    let end_at = t + if chance(1, 3) { interval - (t % interval) } else { gaps[draw(gaps.len() as u32) as usize] };
    {
        let tx2 = tx.clone();
        let d2 = delivered.clone();
        sim::at(end_at, move || {
            sim::log_order("mp end of source".into());
            d2.borrow_mut().1 = true;
            tx2.end()
        });
    }
    let late = chance(1, 4);
    let lag = [0u64, 0, 1, 5][draw(4) as usize];
    let stream = create_multipart_mixed_stream(rx, SimTimer { late }, Duration::from_micros(interval));
    let chunks: std::rc::Rc<std::cell::RefCell<(Vec<Vec<u8>>, bool)>> = Default::default();
    let c2 = chunks.clone();
    let tx_probe = tx.clone();
    sim::spawn_local("body-consumer", async move {
        let mut stream = stream;
        let mut k = 0u32;
        let mut k2 = 0u32;
        while let Some(b) = stream.next().await {
            sim::log_order(format!("mp chunk {} bytes", b.len()));
            // a part is half written when the chunk just received is a part header
            if b.as_ref() == b"--graphql\r\nContent-Type: application/json\r\n\r\n" && tx_probe.queued() > 0 {
                sim::count("probe:input-arrived-while-part-half-written");
            }
            c2.borrow_mut().0.push(b.to_vec());
            k2 += 1;
            if k2 % 64 == 0 {
                sim::yield_now().await;
            }
            if lag > 0 {
                k += 1;
                sim::sleep(1 + ((k as u64 * 7 + lag) % (lag + 1))).await;
            }
        }
        c2.borrow_mut().1 = true;
    });
    let end = sim::run(100_000);
    let (cs, finished) = {
        let c = chunks.borrow();
        (c.0.clone(), c.1)
    };
    let body: Vec<u8> = cs.concat();
    let desc = format!("{n} responses at {:?}, end of source at {end_at}, heartbeat every {interval}us (late: {late}), consumer lag {lag}, params {:?}; body: {:?}", times, params, String::from_utf8_lossy(&body));
    if end != sim::End::Quiescent || !finished {
        out.viol("C26/stall", format!("the body stream did not end ({:?}); {desc}", end));
        return out;
    }
    match parse_multipart(&body) {
        Err(e) => out.viol("C26/malformed", format!("{e}; {desc}")),
        Ok((parts, _closed)) => {
            let mut got: Vec<J> = vec![];
            let mut heartbeats = 0;
            for p in &parts {
                match serde_json::from_slice::<J>(p) {
                    Err(e) => {
                        out.viol("C26/part-not-json", format!("part body {:?} is not JSON ({e}); {desc}", String::from_utf8_lossy(p)));
                        return out;
                    }
                    Ok(v) => {
                        if v == json!({}) {
                            if p.as_slice() != b"{}" {
                                out.viol("C26/heartbeat-body", format!("heartbeat body is {:?}; {desc}", String::from_utf8_lossy(p)));
                                return out;
                            }
                            heartbeats += 1;
                        } else {
                            got.push(v);
                        }
                    }
                }
            }
            if heartbeats > 0 && !got.is_empty() {
                out.nontrivial = true;
                sim::count("probe:response-and-heartbeat-in-one-body");
            }
            if times.iter().any(|t| t % interval == 0 && *t > 0) {
                sim::count("probe:both-select-branches-ready");
            }
            let expected = delivered.borrow().0.clone();
            if got != expected {
                out.viol("C26/responses-differ", format!("the body carries {} responses {:?}, the source delivered {} {:?}; {desc}", got.len(), got, expected.len(), expected));
            }
            if sim::verbose() {
                out.sample = Some(json!({"responses": n, "arrival_times": times, "end_of_source": end_at, "heartbeat_interval_us": interval, "timer_late": late, "consumer_lag": lag,
                    "parts": parts.len(), "heartbeats": heartbeats, "body_bytes": body.len(), "body_prefix": String::from_utf8_lossy(&body[..body.len().min(300)])}));
            }
        }
    }
    out
}
