//! HTTP body scenarios over a simulated reader: C23 (encodings, batches), C24 (multipart uploads),
//! C12 (hostile transport input never crashes or hangs).

use std::{
    cell::Cell,
    collections::BTreeMap,
    io,
    pin::Pin,
    sync::OnceLock,
    task::{Context as Cx, Poll},
};

use async_graphql::{
    http::{parse_query_string, receive_batch_body, receive_batch_json, receive_body, receive_json, ClientMessage, MultipartOptions, WebSocket, WebSocketProtocols, WsMessage},
    BatchRequest, BatchResponse, Context, EmptyMutation, EmptySubscription, InputObject, Object, Request, Schema, Upload,
};
use futures_util::{io::AsyncRead, Future, StreamExt};
use serde_json::{json, Value as J};

use super::{exec::set_latency, world};
use crate::core::{
    check::{CaseOut, CheckDef},
    sim::{self, chance, draw, Gate},
};

// ------------------------------------------------------------------------------------------------
// simulated reader

#[derive(Clone, Debug, Default)]
pub struct ReaderPlan {
    /// 0: one chunk; 1: chunks of 1..8; 2: chunks of 1..64; 3: chunks up to 4096
    pub chunking: u32,
    /// 0 = never, else 1/n chance of a Pending gap before a read
    pub pending_den: u32,
    pub truncate_at: Option<usize>,
    pub error_at: Option<(usize, io::ErrorKind)>,
}

pub struct SimReader {
    data: Vec<u8>,
    pos: usize,
    plan: ReaderPlan,
    gate: Option<Gate>,
    pub stats: std::rc::Rc<std::cell::RefCell<ReaderStats>>,
}

#[derive(Default, Debug)]
pub struct ReaderStats {
    pub delivered: usize,
    pub truncated: bool,
    pub errored: bool,
    pub reads: usize,
    pub split_inside_boundary: bool,
}

// SAFETY-free: the simulator is single-threaded; the Rc is never touched from another thread. The
// library only requires `Send` on the reader type, it never moves it across threads here.
struct SendCell<T>(T);
unsafe impl<T> Send for SendCell<T> {}

pub struct SendReader(SendCell<SimReader>);

impl SimReader {
    pub fn new(data: Vec<u8>, plan: ReaderPlan) -> (SendReader, std::rc::Rc<std::cell::RefCell<ReaderStats>>) {
        let stats: std::rc::Rc<std::cell::RefCell<ReaderStats>> = Default::default();
        (SendReader(SendCell(SimReader { data, pos: 0, plan, gate: None, stats: stats.clone() })), stats)
    }
}

impl AsyncRead for SendReader {
    fn poll_read(mut self: Pin<&mut Self>, cx: &mut Cx<'_>, buf: &mut [u8]) -> Poll<io::Result<usize>> {
        let r = &mut self.0 .0;
        if let Some(g) = r.gate.as_mut() {
            match Pin::new(g).poll(cx) {
                Poll::Pending => return Poll::Pending,
                Poll::Ready(()) => r.gate = None,
            }
        } else if r.plan.pending_den > 0 && chance(1, r.plan.pending_den) {
            sim::count("fault:reader-pending-between-chunks");
            let mut g = sim::gate(1 + draw(3) as u64);
            if Pin::new(&mut g).poll(cx).is_pending() {
                r.gate = Some(g);
                return Poll::Pending;
            }
        }
        r.stats.borrow_mut().reads += 1;
        let limit = r.plan.truncate_at.unwrap_or(usize::MAX).min(r.data.len());
        if let Some((at, kind)) = r.plan.error_at {
            if r.pos >= at.min(limit) && !r.stats.borrow().errored {
                r.stats.borrow_mut().errored = true;
                sim::count("fault:reader-io-error");
                sim::log_order(format!("reader: io error {:?} at byte {}", kind, r.pos));
                return Poll::Ready(Err(io::Error::new(kind, "injected")));
            }
        }
        if r.pos >= limit {
            if limit < r.data.len() && !r.stats.borrow().truncated {
                r.stats.borrow_mut().truncated = true;
                sim::count("fault:reader-eof-truncation");
                sim::log_order(format!("reader: truncated at byte {}", r.pos));
            }
            return Poll::Ready(Ok(0));
        }
        let max_chunk = match r.plan.chunking {
            0 => usize::MAX,
            1 => 1 + draw(8) as usize,
            2 => 1 + draw(64) as usize,
            _ => 1 + draw(4096) as usize,
        };
        if r.plan.chunking > 0 {
            sim::count("fault:reader-short-read");
        }
        let mut end = (r.pos + max_chunk.min(buf.len())).min(limit);
        if let Some((at, _)) = r.plan.error_at {
            end = end.min(at.max(r.pos + 1)).min(limit);
        }
        let n = end - r.pos;
        buf[..n].copy_from_slice(&r.data[r.pos..end]);
        // did this chunk end inside a multipart boundary line?
        if end < r.data.len() && end >= 2 {
            let lo = end.saturating_sub(12);
            let hi = (end + 12).min(r.data.len());
            if let Some(off) = r.data[lo..hi].windows(6).position(|w| w == b"\r\n--SI") {
                let b = lo + off;
                if b < end && end < b + 12 {
                    r.stats.borrow_mut().split_inside_boundary = true;
                }
            }
        }
        r.pos = end;
        r.stats.borrow_mut().delivered = r.pos;
        Poll::Ready(Ok(n))
    }
}

fn draw_plan(faults: bool, len: usize) -> ReaderPlan {
    let mut p = ReaderPlan { chunking: draw(4), pending_den: [0u32, 0, 3, 8][draw(4) as usize], truncate_at: None, error_at: None };
    if faults {
        match draw(3) {
            0 => p.truncate_at = Some(draw(len as u32 + 1) as usize),
            1 => {
                let kind = [io::ErrorKind::ConnectionReset, io::ErrorKind::Interrupted, io::ErrorKind::Other, io::ErrorKind::UnexpectedEof][draw(4) as usize];
                p.error_at = Some((draw(len as u32 + 1) as usize, kind));
            }
            _ => {}
        }
    }
    p
}

/// Run one decode to completion under the simulator. None = stalled.
fn decode<T: 'static>(label: &str, fut: impl Future<Output = T> + 'static) -> Option<T> {
    sim::block_on(label, Some(sim::draw_params()), fut)
}

/// Client disconnect: the wrapped future is dropped at the await point it is suspended at after `polls` polls.
struct CancelAfter<F> {
    inner: Option<Pin<Box<F>>>,
    polls: u32,
}

impl<F: Future> Future for CancelAfter<F> {
    type Output = Option<F::Output>;
    fn poll(mut self: Pin<&mut Self>, cx: &mut Cx<'_>) -> Poll<Self::Output> {
        if self.polls == 0 {
            sim::count("fault:request-cancelled");
            sim::log_order("request future dropped (client went away)".to_string());
            self.inner = None;
            return Poll::Ready(None);
        }
        self.polls -= 1;
        match self.inner.as_mut().expect("polled after completion").as_mut().poll(cx) {
            Poll::Ready(v) => {
                self.inner = None;
                Poll::Ready(Some(v))
            }
            Poll::Pending => Poll::Pending,
        }
    }
}

fn req_fields(r: &Request) -> J {
    json!({
        "query": r.query,
        "operation_name": r.operation_name,
        "variables": serde_json::to_value(&r.variables).unwrap(),
        "extensions": serde_json::to_value(&r.extensions).unwrap(),
    })
}

fn batch_fields(b: &BatchRequest) -> J {
    match b {
        BatchRequest::Single(r) => json!({"single": req_fields(r)}),
        BatchRequest::Batch(v) => json!({"batch": v.iter().map(req_fields).collect::<Vec<_>>()}),
    }
}

// ------------------------------------------------------------------------------------------------
// generators

fn gen_text() -> String {
    let pieces = ["a", "B", " ", "&", "=", "+", "%", "%7B", "\"", "\\", "é", "\n", "#", "?", "/", "{", "}", "0", "名", "\u{1F600}", ";", "\r\n--SIM"];
    (0..draw(5)).map(|_| pieces[draw(pieces.len() as u32) as usize]).collect()
}

fn gen_json(depth: u32) -> J {
    match draw(if depth >= 2 { 5 } else { 7 }) {
        0 => J::Null,
        1 => json!(draw(1000)),
        2 => json!(gen_text()),
        3 => json!(chance(1, 2)),
        4 => json!(-(draw(50) as i64)),
        5 => J::Array((0..draw(3)).map(|_| gen_json(depth + 1)).collect()),
        _ => {
            let mut m = serde_json::Map::new();
            for i in 0..draw(3) {
                m.insert(format!("k{i}{}", if chance(1, 4) { gen_text() } else { String::new() }), gen_json(depth + 1));
            }
            J::Object(m)
        }
    }
}

struct GenReq {
    query: String,
    operation_name: Option<String>,
    variables: Option<J>,
    extensions: Option<J>,
}

fn gen_req() -> GenReq {
    let query = match draw(4) {
        0 => "{ id }".to_string(),
        1 => format!("query Q {{ a: echo(n: {}) }} # {}", draw(9), gen_text().replace(['\n', '\r'], " ")),
        2 => format!("query A {{ id }} query B {{ req }} # {}", gen_text().replace(['\n', '\r'], " ")),
        _ => format!("{{ echo(n: 1) }} # {}", gen_text().replace(['\n', '\r'], " ")),
    };
    let operation_name = match draw(3) {
        0 => None,
        1 => Some("B".to_string()),
        _ => Some(gen_text()),
    };
    let variables = if chance(2, 3) {
        let mut m = serde_json::Map::new();
        for i in 0..draw(4) {
            m.insert(format!("v{i}"), gen_json(0));
        }
        // now and then a body larger than the 2 KiB read buffer, with non-ASCII text around the boundary
        if chance(1, 5) {
            let unit = ["ab", "é", "名x", "\u{1F600}z"][draw(4) as usize];
            let n = 1500 + draw(3000) as usize;
            m.insert("pad".into(), json!(unit.repeat(n / unit.len() + 1)));
        }
        Some(J::Object(m))
    } else {
        None
    };
    let variables = if chance(1, 12) { Some(J::Null) } else { variables };
    let extensions = if chance(1, 2) {
        let mut m = serde_json::Map::new();
        for i in 0..draw(3) {
            m.insert(format!("x{i}{}", if chance(1, 4) { gen_text() } else { String::new() }), gen_json(1));
        }
        Some(J::Object(m))
    } else {
        None
    };
    GenReq { query, operation_name, variables, extensions }
}

fn req_json(r: &GenReq) -> J {
    let mut m = serde_json::Map::new();
    m.insert("query".into(), json!(r.query));
    if let Some(o) = &r.operation_name {
        m.insert("operationName".into(), json!(o));
    }
    if let Some(v) = &r.variables {
        m.insert("variables".into(), v.clone());
    }
    if let Some(v) = &r.extensions {
        m.insert("extensions".into(), v.clone());
    }
    J::Object(m)
}

fn urlencode(s: &str) -> String {
    let mut out = String::new();
    for b in s.bytes() {
        match b {
            b'A'..=b'Z' | b'a'..=b'z' | b'0'..=b'9' | b'-' | b'_' | b'.' | b'~' => out.push(b as char),
            b' ' => out.push('+'),
            _ => out.push_str(&format!("%{:02X}", b)),
        }
    }
    out
}

fn req_query_string(r: &GenReq) -> String {
    let mut parts = vec![format!("query={}", urlencode(&r.query))];
    if let Some(o) = &r.operation_name {
        parts.push(format!("operationName={}", urlencode(o)));
    }
    if let Some(v) = &r.variables {
        parts.push(format!("variables={}", urlencode(&v.to_string())));
    }
    if let Some(v) = &r.extensions {
        parts.push(format!("extensions={}", urlencode(&v.to_string())));
    }
    // parameter order is free
    if chance(1, 2) {
        parts.reverse();
    }
    let mut qs = parts.join("&");
    if chance(1, 6) {
        qs.push('&');
    }
    qs
}

pub const BOUNDARY: &str = "SIMb0undary";

struct Part {
    name: String,
    filename: Option<String>,
    content_type: Option<String>,
    data: Vec<u8>,
}

fn multipart_body(parts: &[Part]) -> Vec<u8> {
    let mut b = Vec::new();
    for p in parts {
        b.extend_from_slice(format!("--{BOUNDARY}\r\n").as_bytes());
        b.extend_from_slice(format!("Content-Disposition: form-data; name=\"{}\"", p.name).as_bytes());
        if let Some(f) = &p.filename {
            b.extend_from_slice(format!("; filename=\"{f}\"").as_bytes());
        }
        b.extend_from_slice(b"\r\n");
        if let Some(ct) = &p.content_type {
            b.extend_from_slice(format!("Content-Type: {ct}\r\n").as_bytes());
        }
        b.extend_from_slice(b"\r\n");
        b.extend_from_slice(&p.data);
        b.extend_from_slice(b"\r\n");
    }
    b.extend_from_slice(format!("--{BOUNDARY}--\r\n").as_bytes());
    b
}

fn mp_content_type() -> String {
    format!("multipart/form-data; boundary={BOUNDARY}")
}

// ------------------------------------------------------------------------------------------------
// C23

pub static C23: CheckDef = CheckDef {
    id: "C23",
    variants: &["encodings", "stream-faults", "batch-order", "malformed"],
    run: run_c23,
    quick_runs: 300_000,
    thorough_runs: 20_000_000,
    rule: "encodings: a generated request (query text, operation name, variables and extensions with arbitrary characters) is encoded as a JSON body, as element i of a JSON batch, as a GET query string and as the operations part of a multipart body, each body delivered through a simulated reader (chunk sizes 1..4096, Pending gaps); all four must decode to the same query, operation name, variables and extensions, and decoding must not depend on the chunk schedule. stream-faults: truncation or an I/O error at a drawn byte: the result must equal the one-chunk decode of the bytes actually delivered (an injected I/O error must yield Err). batch-order: a JSON batch of 2-6 (now and then 12-20, 30-34 or 60-139) requests decodes in order and execute_batch returns response i for request i under drawn resolver completion orders. malformed: structurally broken variants of each encoding must be rejected with an error. Non-trivial = a body was delivered in >= 2 chunks or a fault fired or >= 2 batch resolvers were in flight; distinct = distinct event-order hashes.",
    real: &["async_graphql::http::{receive_body, receive_batch_body, receive_json, receive_batch_json, parse_query_string}", "ReaderStream + multer (multipart)", "serde_json / serde_urlencoded decoding", "Schema::execute_batch"],
    stub: &["request body (simulated AsyncRead: chunking, Pending, truncation, I/O errors)", "resolvers of the batch schema (gated)", "async runtime"],
    assumptions: &["the equality of the four encodings is an input-level comparison riding on the simulated transport; what the technique adds is chunk-schedule independence, fault behaviour and batch ordering under completion orders"],
    restrictions: &["floats and integers beyond i64 are left out of generated variables (number round-trips are C15/C16)"],
    expected_probes: &["probe:body-in-many-chunks", "probe:chunk-split-inside-boundary", "probe:batch-resolvers-in-flight", "probe:get-operation-name-present"],
};

fn run_c23(variant: usize) -> CaseOut {
    let mut out = CaseOut::default();
    match variant {
        0 | 1 => c23_encodings(variant == 1, &mut out),
        2 => c23_batch(&mut out),
        _ => c23_malformed(&mut out),
    }
    out
}

type DecodeRes = Result<J, String>;

fn decode_body(label: &str, content_type: Option<String>, body: Vec<u8>, plan: ReaderPlan, batch: bool) -> (Option<DecodeRes>, ReaderStatsSnapshot) {
    let (reader, stats) = SimReader::new(body, plan);
    let res = if batch {
        decode(label, async move { receive_batch_body(content_type, reader, MultipartOptions::default()).await.map(|b| batch_fields(&b)).map_err(|e| format!("{e:?}")) })
    } else {
        decode(label, async move { receive_body(content_type, reader, MultipartOptions::default()).await.map(|r| json!({"single": req_fields(&r)})).map_err(|e| format!("{e:?}")) })
    };
    let s = stats.borrow();
    (res, ReaderStatsSnapshot { delivered: s.delivered, truncated: s.truncated, errored: s.errored, reads: s.reads, split: s.split_inside_boundary })
}

#[derive(Debug, Clone, Copy)]
struct ReaderStatsSnapshot {
    delivered: usize,
    truncated: bool,
    errored: bool,
    reads: usize,
    split: bool,
}

/// A media type under which a JSON request body (or operations part) may legitimately arrive.
fn json_media_type() -> String {
    ["application/json", "application/json; charset=utf-8", "application/graphql+json", "application/graphql-response+json", "APPLICATION/JSON", "application/graphql+json; charset=utf-8", "Application/GraphQL+JSON"][draw(7) as usize].to_string()
}

/// JSON documents may be surrounded by white space (pretty-printed bodies start with a newline often enough).
fn json_pad(body: Vec<u8>) -> Vec<u8> {
    let ws: [&[u8]; 4] = [b" ", b"\n", b"\r\n\t", b"  \n "];
    let mut v = vec![];
    if chance(1, 4) {
        v.extend_from_slice(ws[draw(4) as usize]);
        sim::count("probe:json-body-with-leading-white-space");
    }
    v.extend_from_slice(&body);
    if chance(1, 4) {
        v.extend_from_slice(ws[draw(4) as usize]);
    }
    v
}

fn c23_encodings(faults: bool, out: &mut CaseOut) {
    let r = gen_req();
    let single = json_pad(serde_json::to_vec(&req_json(&r)).unwrap());
    let others: Vec<GenReq> = (0..draw(3)).map(|_| gen_req()).collect();
    let pos = draw(others.len() as u32 + 1) as usize;
    let mut batch_items: Vec<J> = others.iter().map(req_json).collect();
    batch_items.insert(pos, req_json(&r));
    let batch = json_pad(serde_json::to_vec(&J::Array(batch_items)).unwrap());
    let qs = req_query_string(&r);
    let mp = multipart_body(&[
        Part { name: "operations".into(), filename: None, content_type: if chance(1, 2) { Some(json_media_type()) } else { None }, data: single.clone() },
        Part { name: "map".into(), filename: None, content_type: None, data: b"{}".to_vec() },
    ]);
    let json_ct = if chance(1, 2) { Some(json_media_type()) } else { None };
    let batch_ct = json_media_type();
    let desc = format!("request {}; content types: body {:?}, batch {:?}", req_json(&r), json_ct, batch_ct);
    if r.operation_name.is_some() {
        sim::count("probe:get-operation-name-present");
    }
    // reference: one chunk, no faults
    let one = ReaderPlan::default();
    let bodies: Vec<(&str, Option<String>, Vec<u8>, bool)> = vec![
        ("json", json_ct.clone(), single.clone(), false),
        ("batch", Some(batch_ct.clone()), batch.clone(), true),
        ("multipart", Some(mp_content_type()), mp.clone(), false),
    ];
    let mut decoded: BTreeMap<&str, J> = BTreeMap::new();
    for (name, ct, body, is_batch) in &bodies {
        let (reference, _) = decode_body(&format!("{name}/one-chunk"), ct.clone(), body.clone(), one.clone(), *is_batch);
        let Some(reference) = reference else {
            out.viol("C23/stall", format!("{name}: decoding a complete body in one chunk did not finish; {desc}"));
            return;
        };
        let plan = draw_plan(faults, body.len());
        let (got, st) = decode_body(&format!("{name}/planned"), ct.clone(), body.clone(), plan.clone(), *is_batch);
        let Some(got) = got else {
            out.viol("C23/stall", format!("{name}: decoding under reader plan {:?} did not finish; {desc}", plan));
            return;
        };
        if st.reads >= 3 {
            sim::count("probe:body-in-many-chunks");
            out.nontrivial = true;
        }
        if st.split {
            sim::count("probe:chunk-split-inside-boundary");
        }
        if st.errored {
            out.nontrivial = true;
            if got.is_ok() {
                out.viol("C23/io-error-swallowed", format!("{name}: an injected I/O error at byte {} was not reported, decode returned {:?}; plan {:?}; {desc}", st.delivered, got, plan));
                return;
            }
        } else if st.truncated {
            out.nontrivial = true;
            // must equal the one-chunk decode of the delivered prefix
            let (prefix_ref, _) = decode_body(&format!("{name}/prefix"), ct.clone(), body[..st.delivered].to_vec(), one.clone(), *is_batch);
            match (prefix_ref, &got) {
                (Some(Ok(a)), Ok(b)) if a == *b => {}
                (Some(Err(_)), Err(_)) => {}
                (p, g) => {
                    out.viol("C23/chunking-dependent", format!("{name}: body truncated at byte {}: decode gave {:?}, the one-chunk decode of the same bytes gives {:?}; plan {:?}; {desc}", st.delivered, g, p, plan));
                    return;
                }
            }
        } else {
            match (&reference, &got) {
                (Ok(a), Ok(b)) if a == b => {}
                (Err(_), Err(_)) => {}
                _ => {
                    out.viol("C23/chunking-dependent", format!("{name}: one-chunk decode gave {:?}, reader plan {:?} gave {:?}; {desc}", reference, plan, got));
                    return;
                }
            }
        }
        match reference {
            Ok(v) => {
                let item = if *is_batch { v["batch"][pos].clone() } else { v["single"].clone() };
                decoded.insert(name, item);
            }
            Err(e) => {
                out.viol("C23/valid-encoding-rejected", format!("{name}: a well-formed body was rejected: {e}; {desc}"));
                return;
            }
        }
    }
    match parse_query_string(&qs) {
        Ok(req) => {
            decoded.insert("get", req_fields(&req));
        }
        Err(e) => {
            out.viol("C23/valid-encoding-rejected", format!("GET query string {qs:?} was rejected: {e:?}; {desc}"));
            return;
        }
    }
    let base = decoded["json"].clone();
    for (name, v) in &decoded {
        if *v != base {
            let class = if *name == "get" && v["operation_name"] != base["operation_name"] && v["query"] == base["query"] && v["variables"] == base["variables"] && v["extensions"] == base["extensions"] {
                out.known(
                    "C23-get-operation-name-ignored",
                    "C23/encodings-differ",
                    format!("GET query string {qs:?} decodes to operation name {} where the JSON body gives {}; {desc}", v["operation_name"], base["operation_name"]),
                );
                continue;
            } else {
                "C23/encodings-differ"
            };
            out.viol(class, format!("encoding '{name}' decodes to {v}, the JSON body decodes to {base}; query string: {qs:?}; {desc}"));
            return;
        }
    }
    if sim::verbose() {
        out.sample = Some(json!({"request": req_json(&r), "query_string": qs, "batch_position": pos, "multipart_bytes": mp.len(), "decoded": base}));
    }
}

pub struct BatchQuery;

#[Object]
impl BatchQuery {
    async fn echo(&self, ctx: &Context<'_>, n: i32) -> i32 {
        let path = world::path_of(ctx);
        let k = world::world(|w| {
            w.inflight += 1;
            w.inflight
        });
        if k >= 2 {
            sim::count("probe:batch-resolvers-in-flight");
        }
        sim::gate(world::latency_for(&format!("batch{n}:{path}"))).await;
        world::world(|w| w.inflight -= 1);
        sim::log_order(format!("batch resolver echo({n}) done"));
        n
    }
}

fn batch_schema() -> &'static Schema<BatchQuery, EmptyMutation, EmptySubscription> {
    static S: OnceLock<Schema<BatchQuery, EmptyMutation, EmptySubscription>> = OnceLock::new();
    S.get_or_init(|| Schema::new(BatchQuery, EmptyMutation, EmptySubscription))
}

fn c23_batch(out: &mut CaseOut) {
    world::reset_world();
    // mostly 2-6 requests; now and then 12-20, and sizes around and beyond the thresholds at which
    // joins and chunked executors change strategy (30-34, 60-140)
    let n = match draw(16) {
        0 | 1 => 12 + draw(9) as usize,
        2 => 30 + draw(5) as usize,
        3 => 60 + draw(80) as usize,
        _ => 2 + draw(5) as usize,
    };
    if n > 30 {
        sim::count("probe:batch-over-30-requests");
    }
    // 0: Schema::execute_batch; 1: the Executor trait on a dynamic schema; 2: the Executor trait on
    // the static schema (how the web integrations call it)
    let via = draw(3);
    let dynamic = via == 1;
    let items: Vec<J> = (0..n)
        .map(|i| {
            if chance(1, 6) {
                json!({"query": "{ nope }", "variables": {"i": i}})
            } else {
                json!({"query": format!("query($i: Int!) {{ echo(n: $i) second: echo(n: {}) }}", 1000 + i), "variables": {"i": i}})
            }
        })
        .collect();
    let body = json_pad(serde_json::to_vec(&J::Array(items.clone())).unwrap());
    let plan = draw_plan(false, body.len());
    let (reader, _stats) = SimReader::new(body, plan);
    set_latency(draw(1 << 16) as u64, [2u32, 1, 3, 0][draw(4) as usize]);
    world::begin_world_exec();
    let res = decode("batch", async move {
        let batch = receive_batch_json(reader).await.map_err(|e| format!("{e:?}"))?;
        let decoded = batch_fields(&batch);
        let resp = match via {
            1 => async_graphql::Executor::execute_batch(world::dynamic_schema(0), batch).await,
            2 => async_graphql::Executor::execute_batch(batch_schema(), batch).await,
            _ => batch_schema().execute_batch(batch).await,
        };
        Ok::<_, String>((decoded, resp))
    });
    let Some(res) = res else {
        out.viol("C23/stall", format!("decoding + executing a batch did not finish; batch {:?}", items));
        return;
    };
    match res {
        Err(e) => out.viol("C23/valid-encoding-rejected", format!("a well-formed batch was rejected: {e}; batch {:?}", items)),
        Ok((decoded, resp)) => {
            let got_vars: Vec<J> = decoded["batch"].as_array().map(|a| a.iter().map(|r| r["variables"]["i"].clone()).collect()).unwrap_or_default();
            let want: Vec<J> = (0..n).map(|i| json!(i)).collect();
            if got_vars != want {
                out.viol("C23/batch-decoded-out-of-order", format!("batch decoded as {decoded}"));
                return;
            }
            let BatchResponse::Batch(rs) = resp else {
                out.viol("C23/batch-response-shape", "execute_batch of a batch returned a single response".to_string());
                return;
            };
            if rs.len() != n {
                out.viol("C23/batch-response-shape", format!("{} responses for {n} requests", rs.len()));
                return;
            }
            out.nontrivial = true;
            for (i, r) in rs.iter().enumerate() {
                let v = serde_json::to_value(r).unwrap();
                let is_bad = items[i]["query"] == "{ nope }";
                let ok = if is_bad { v.get("errors").is_some() } else { v["data"]["echo"] == json!(i) && v["data"]["second"] == json!(1000 + i) };
                if !ok {
                    out.viol("C23/batch-response-out-of-order", format!("response #{i} is {v}; batch {:?}", items));
                    return;
                }
            }
            if sim::verbose() {
                out.sample = Some(json!({"batch": items, "responses": rs.iter().map(|r| serde_json::to_value(r).unwrap()).collect::<Vec<_>>()}));
            }
        }
    }
}

fn c23_malformed(out: &mut CaseOut) {
    let r = gen_req();
    let good = serde_json::to_vec(&req_json(&r)).unwrap();
    let kind = draw(16);
    let (label, result): (String, Option<DecodeRes>) = match kind {
        0 => {
            // JSON cut in the middle of the document
            let cut = 1 + draw(good.len() as u32 - 1) as usize;
            let body = good[..cut].to_vec();
            let plan = draw_plan(false, body.len());
            (format!("json body cut at byte {cut}: {:?}", String::from_utf8_lossy(&body)), decode_body("malformed", Some("application/json".into()), body, plan, false).0)
        }
        1 => {
            let body = serde_json::to_vec(&json!({"query": 7, "variables": {}})).unwrap();
            (format!("query is a number"), decode_body("malformed", None, body, draw_plan(false, 10), false).0)
        }
        2 => {
            let body = serde_json::to_vec(&json!({"query": "{ id }", "variables": "oops"})).unwrap();
            (format!("variables is a string"), decode_body("malformed", None, body, draw_plan(false, 10), false).0)
        }
        3 => {
            let body = serde_json::to_vec(&json!([req_json(&r), 5])).unwrap();
            (format!("batch with a non-object element"), decode_body("malformed", None, body, draw_plan(false, 10), true).0)
        }
        4 => {
            let qs = format!("query={}&variables=%7B%22a%22%3A", urlencode(&r.query));
            (format!("GET with cut variables JSON: {qs}"), Some(parse_query_string(&qs).map(|r| req_fields(&r)).map_err(|e| format!("{e:?}"))))
        }
        5 => {
            let qs = format!("query={}&extensions=%5B1%2C", urlencode(&r.query));
            (format!("GET with cut extensions JSON: {qs}"), Some(parse_query_string(&qs).map(|r| req_fields(&r)).map_err(|e| format!("{e:?}"))))
        }
        8 => {
            let mut body = good.clone();
            body.extend_from_slice(b" xyz");
            ("json body followed by trailing garbage".to_string(), decode_body("malformed", None, body, draw_plan(false, 10), false).0)
        }
        9 => {
            let body = serde_json::to_vec(&json!([req_json(&r), null])).unwrap();
            ("batch containing null".to_string(), decode_body("malformed", None, body, draw_plan(false, 10), true).0)
        }
        10 => {
            let body = serde_json::to_vec(&json!({"query": "{ id }", "operationName": 5})).unwrap();
            ("operationName is a number".to_string(), decode_body("malformed", None, body, draw_plan(false, 10), false).0)
        }
        14 | 15 => {
            // a JSON array that is neither a request object nor a non-empty batch of request objects:
            // the empty array, arrays of strings ("positional" requests), arrays of arrays
            let doc = match draw(6) {
                0 => json!([]),
                1 => json!([r.query]),
                2 => json!([r.query, "Q"]),
                3 => json!([[r.query]]),
                4 => json!([req_json(&r), [r.query]]),
                _ => json!([[]]),
            };
            let body = serde_json::to_vec(&doc).unwrap();
            let plan = draw_plan(false, body.len());
            match draw(3) {
                0 => (format!("json body {doc} read as a single request"), decode_body("malformed", Some("application/json".into()), body, plan, false).0),
                1 => (format!("json body {doc} read as a batch"), decode_body("malformed", None, body, plan, true).0),
                _ => {
                    let mp = multipart_body(&[
                        Part { name: "operations".into(), filename: None, content_type: None, data: body },
                        Part { name: "map".into(), filename: None, content_type: None, data: b"{}".to_vec() },
                    ]);
                    let plan = draw_plan(false, mp.len());
                    (format!("multipart operations {doc}"), decode_body("malformed", Some(mp_content_type()), mp, plan, chance(1, 2)).0)
                }
            }
        }
        11..=13 => {
            // one member of the request has the wrong JSON type, in any of the four encodings
            let (member, wrong): (&str, J) = match draw(4) {
                0 => ("variables", [json!([1, 2]), json!(7), json!("{}"), json!(true), json!([])][draw(5) as usize].clone()),
                1 => ("extensions", [json!([1, 2]), json!(7), json!("{}"), json!(true), json!([])][draw(5) as usize].clone()),
                2 => ("query", [json!(7), json!([]), json!(true), json!({})][draw(4) as usize].clone()),
                _ => ("operationName", [json!(7), json!([]), json!({}), json!(false)][draw(4) as usize].clone()),
            };
            let mut doc = req_json(&r);
            doc[member] = wrong.clone();
            let enc = if member == "variables" || member == "extensions" { draw(4) } else { draw(3) };
            match enc {
                0 => {
                    let body = serde_json::to_vec(&doc).unwrap();
                    let plan = draw_plan(false, body.len());
                    (format!("json body with {member} = {wrong}"), decode_body("malformed", Some("application/json".into()), body, plan, chance(1, 2)).0)
                }
                1 => {
                    let body = serde_json::to_vec(&json!([req_json(&r), doc])).unwrap();
                    let plan = draw_plan(false, body.len());
                    (format!("batch element with {member} = {wrong}"), decode_body("malformed", None, body, plan, true).0)
                }
                2 => {
                    let body = multipart_body(&[
                        Part { name: "operations".into(), filename: None, content_type: None, data: serde_json::to_vec(&doc).unwrap() },
                        Part { name: "map".into(), filename: None, content_type: None, data: b"{}".to_vec() },
                    ]);
                    let plan = draw_plan(false, body.len());
                    (format!("multipart operations with {member} = {wrong}"), decode_body("malformed", Some(mp_content_type()), body, plan, chance(1, 2)).0)
                }
                _ => {
                    let qs = format!("query={}&{member}={}", urlencode(&r.query), urlencode(&wrong.to_string()));
                    (format!("GET with {member} = {wrong}: {qs}"), Some(parse_query_string(&qs).map(|r| req_fields(&r)).map_err(|e| format!("{e:?}"))))
                }
            }
        }
        6 => {
            // multipart without the operations part
            let body = multipart_body(&[Part { name: "map".into(), filename: None, content_type: None, data: b"{}".to_vec() }]);
            let plan = draw_plan(false, body.len());
            (format!("multipart without operations"), decode_body("malformed", Some(mp_content_type()), body, plan, false).0)
        }
        _ => {
            // multipart whose operations part is not JSON
            let body = multipart_body(&[
                Part { name: "operations".into(), filename: None, content_type: None, data: b"{\"query\": ".to_vec() },
                Part { name: "map".into(), filename: None, content_type: None, data: b"{}".to_vec() },
            ]);
            let plan = draw_plan(false, body.len());
            (format!("multipart with broken operations JSON"), decode_body("malformed", Some(mp_content_type()), body, plan, false).0)
        }
    };
    out.nontrivial = true;
    match result {
        None => out.viol("C23/stall", format!("decoding a malformed encoding did not finish: {label}")),
        Some(Ok(v)) => out.viol("C23/malformed-accepted", format!("malformed encoding accepted ({label}) as {v}")),
        Some(Err(_)) => {}
    }
    if sim::verbose() {
        out.sample = Some(json!({"malformed": label}));
    }
}

// ------------------------------------------------------------------------------------------------
// upload schema (C24, C12)

#[derive(InputObject)]
pub struct UpIn {
    f: Option<Upload>,
    n: Option<i32>,
    fs: Option<Vec<Option<Upload>>>,
}

pub struct UpQuery;

pub struct PlainQuery;

#[Object]
impl PlainQuery {
    async fn plain(&self, s: Option<String>, n: Option<i32>) -> String {
        format!("{:?}{:?}", s, n)
    }
    async fn id(&self) -> i32 {
        1
    }
}

// ---- the disk seam: `blocking::Unblock` is the inline stand-in of /verif/vendor/blocking, which asks
// this hook before every operation on a spooled upload
#[derive(Clone, Copy, Default, Debug)]
struct DiskState {
    /// 0 = off, 1 = benign only (Pending, short transfers), 2 = also errors while decoding
    mode: u32,
    executing: bool,
    ops: u32,
    pendings: u32,
    shorts: u32,
    errors: u32,
}

thread_local! {
    static DISK: Cell<DiskState> = const { Cell::new(DiskState { mode: 0, executing: false, ops: 0, pendings: 0, shorts: 0, errors: 0 }) };
    static READ_ASYNC: Cell<bool> = const { Cell::new(false) };
}

#[cfg(feature = "spool")]
fn disk_hook(op: blocking::Op) -> blocking::Act {
    use blocking::{Act, Op};
    let mut d = DISK.with(|c| c.get());
    d.ops += 1;
    let act = if d.mode == 0 {
        Act::Proceed
    } else {
        match draw(24) {
            0..=2 => {
                d.pendings += 1;
                sim::count("fault:disk-pending");
                Act::Pending
            }
            3 | 4 if matches!(op, Op::Write(n) | Op::Read(n) if n > 1) => {
                d.shorts += 1;
                sim::count("fault:disk-short-transfer");
                let n = match op {
                    Op::Write(n) | Op::Read(n) => n,
                    _ => 1,
                };
                Act::Short(1 + draw(n as u32 - 1) as usize)
            }
            5 if d.mode == 2 && !d.executing && matches!(op, Op::Write(_) | Op::Seek) => {
                d.errors += 1;
                sim::count("fault:disk-error");
                Act::Error([std::io::ErrorKind::StorageFull, std::io::ErrorKind::Other, std::io::ErrorKind::Interrupted, std::io::ErrorKind::WriteZero][draw(4) as usize])
            }
            _ => Act::Proceed,
        }
    };
    DISK.with(|c| c.set(d));
    act
}

fn disk_begin(mode: u32) {
    DISK.with(|c| c.set(DiskState { mode, ..DiskState::default() }));
    #[cfg(feature = "spool")]
    blocking::__verif_set_hook(Some(disk_hook));
}

fn disk_executing() {
    DISK.with(|c| {
        let mut d = c.get();
        d.executing = true;
        c.set(d);
    });
}

fn disk_end() -> DiskState {
    #[cfg(feature = "spool")]
    blocking::__verif_set_hook(None);
    let d = DISK.with(|c| c.get());
    DISK.with(|c| c.set(DiskState::default()));
    d
}

/// The bytes a resolver gets through `into_async_read` (with the tempfile feature: through Unblock).
async fn upload_bytes_async(v: async_graphql::UploadValue) -> std::io::Result<Vec<u8>> {
    use futures_util::AsyncReadExt;
    let mut r = Box::pin(v.into_async_read());
    let mut b = vec![];
    r.read_to_end(&mut b).await?;
    Ok(b)
}

/// The bytes a resolver gets when it reads the handed-out upload from where it stands.
fn upload_bytes(v: async_graphql::UploadValue) -> std::io::Result<Vec<u8>> {
    #[cfg(feature = "spool")]
    {
        use std::io::Read;
        let mut f = v.content;
        let mut b = vec![];
        f.read_to_end(&mut b)?;
        Ok(b)
    }
    #[cfg(not(feature = "spool"))]
    {
        Ok(v.content.to_vec())
    }
}

fn new_upload(filename: &str, data: &'static [u8]) -> async_graphql::UploadValue {
    #[cfg(feature = "spool")]
    {
        use std::io::{Seek, Write};
        let mut f = tempfile::tempfile().expect("tempfile");
        f.write_all(data).expect("write");
        f.rewind().expect("rewind");
        async_graphql::UploadValue { filename: filename.into(), content_type: None, content: f }
    }
    #[cfg(not(feature = "spool"))]
    {
        async_graphql::UploadValue { filename: filename.into(), content_type: None, content: bytes::Bytes::from_static(data) }
    }
}

async fn echo_upload(ctx: &Context<'_>, u: &Upload) -> String {
    match u.value(ctx) {
        Ok(v) => {
            let (filename, ct, size) = (v.filename.clone(), v.content_type.clone(), v.size());
            let bytes = if READ_ASYNC.with(|c| c.get()) { upload_bytes_async(v).await } else { upload_bytes(v) };
            match bytes {
                Ok(b) => {
                    let sum: u64 = b.iter().map(|b| *b as u64).sum();
                    let size_note = match size {
                        Ok(n) if n == b.len() as u64 => String::new(),
                        other => format!("|size={other:?}"),
                    };
                    format!("{}|{}|{}|{}{}", filename, ct.unwrap_or_else(|| "-".into()), b.len(), sum, size_note)
                }
                Err(e) => format!("unreadable content: {e}"),
            }
        }
        Err(e) => format!("unreadable: {e}"),
    }
}

#[Object]
impl UpQuery {
    async fn echo_opt(&self, ctx: &Context<'_>, f: Option<Upload>) -> Option<String> {
        match f {
            Some(u) => Some(echo_upload(ctx, &u).await),
            None => None,
        }
    }
    async fn echo_list(&self, ctx: &Context<'_>, fs: Option<Vec<Option<Upload>>>) -> Vec<Option<String>> {
        let mut out = vec![];
        for u in fs.unwrap_or_default() {
            out.push(match u {
                Some(u) => Some(echo_upload(ctx, &u).await),
                None => None,
            });
        }
        out
    }
    async fn echo_obj(&self, ctx: &Context<'_>, o: Option<UpIn>) -> Option<String> {
        let o = o?;
        let u = o.f?;
        Some(format!("{}#{}", echo_upload(ctx, &u).await, o.n.unwrap_or(0)))
    }
    async fn echo_obj_list(&self, ctx: &Context<'_>, o: Option<UpIn>) -> Vec<Option<String>> {
        let mut out = vec![];
        for u in o.and_then(|o| o.fs).unwrap_or_default() {
            out.push(match u {
                Some(u) => Some(echo_upload(ctx, &u).await),
                None => None,
            });
        }
        out
    }
    async fn echo_req(&self, ctx: &Context<'_>, f: Upload) -> String {
        echo_upload(ctx, &f).await
    }
    async fn plain(&self, s: Option<String>, n: Option<i32>) -> String {
        format!("{:?}{:?}", s, n)
    }
}

fn up_schema() -> &'static Schema<PlainQuery, UpQuery, EmptySubscription> {
    static S: OnceLock<Schema<PlainQuery, UpQuery, EmptySubscription>> = OnceLock::new();
    S.get_or_init(|| Schema::new(PlainQuery, UpQuery, EmptySubscription))
}

// (one operation variable is itself called `variables`, so that a map path can read `variables.variables.f`)
const UP_QUERY: &str = "mutation($a: Upload, $b: [Upload], $o: UpIn, $variables: UpIn) { a: echoOpt(f: $a) b: echoList(fs: $b) o: echoObj(o: $o) ol: echoObjList(o: $o) v: echoObj(o: $variables) }";

// ------------------------------------------------------------------------------------------------
// C24

pub static C24: CheckDef = CheckDef {
    id: "C24",
    variants: &["fault-free", "reader-faults", "spool-delays", "spool-faults"],
    run: run_c24,
    quick_runs: 300_000,
    thorough_runs: 20_000_000,
    rule: "case = generated multipart request: single or batch (1-3, now and then 11-12) operations, 0-6 file parts (sizes around max_file_size), a map that binds files to variable paths (several paths per file, list and object paths, per-request batch paths), part order permuted, missing and extra files, generated MultipartOptions (max_file_size, max_num_files or none); the body is delivered through the simulated reader (chunking, Pending gaps; 'reader-faults' adds truncation and I/O errors). The harness is built with async-graphql's default tempfile feature, so every file part is spooled to a real temporary file through blocking::Unblock, which is the inline stand-in of /verif/vendor/blocking: the simulator decides at that seam whether an operation proceeds, returns Pending first, transfers fewer bytes than asked ('spool-delays') or fails with StorageFull / Other / Interrupted / WriteZero ('spool-faults', only while the request is being decoded). Oracle: reference model of the multipart request spec computes either the rejection or the binding (request, variable path) -> file; bindings are observed by executing every decoded request against a schema whose Upload arguments read the handed-out upload (directly from the File or through into_async_read, drawn per case) and echo file name, content type, length, byte sum and size(). Fault-free and spool-delays: outcome must equal the model; under reader or disk errors a failure is acceptable only if a fault fired, an injected transport error must not be swallowed, and success must equal the model (after a disk error an implementation may fail the request or retry, never bind truncated or wrong content). Non-trivial = at least one file was bound or a limit/missing-file rejection was expected; distinct = distinct event-order hashes.",
    real: &["async_graphql::http::receive_batch_body -> receive_batch_multipart (tempfile branch)", "ReaderStream (2 KiB buffer) + multer with size constraints", "tempfile::tempfile (real unnamed files)", "Request::set_upload", "Upload input type, Upload::value, UploadValue::{try_clone, size, into_async_read} + executor"],
    stub: &["request body (simulated AsyncRead)", "blocking::Unblock (inline stand-in with the simulator's fault hook instead of a thread pool)", "async runtime"],
    assumptions: &["resolvers read an upload to its end before the next resolver of the request reads (mutation root fields run serially); concurrently interleaved reads of two handles of one file are not exercised"],
    restrictions: &["when the operations or map part itself exceeds max_file_size, or the whole body exceeds max_file_size*max_num_files, the library's byte budgets reject the request; the model accepts either outcome there (counted as probe:byte-budget-ambiguous)", "variable paths in the map always point at existing variable positions", "the in-memory (tempfile feature off) branch is exercised only when the harness is built with --no-default-features"],
    expected_probes: &["probe:file-bound-to-several-paths", "probe:batch-path", "probe:more-files-than-max", "probe:file-over-max-size", "probe:chunk-split-inside-boundary", "probe:map-entry-without-file", "probe:two-files-same-filename", "probe:upload-spooled-to-disk"],
};

#[derive(Clone, Debug)]
struct GenFile {
    name: String,
    filename: String,
    ctype: Option<String>,
    data: Vec<u8>,
}

fn expected_echo(f: &GenFile) -> String {
    let sum: u64 = f.data.iter().map(|b| *b as u64).sum();
    format!("{}|{}|{}|{}", f.filename, f.ctype.clone().unwrap_or_else(|| "-".into()), f.data.len(), sum)
}

fn run_c24(variant: usize) -> CaseOut {
    let mut out = CaseOut::default();
    let faults = variant == 1;
    // variants 2 and 3 drive the disk seam: Pending and short transfers (2), also write/seek errors (3)
    let disk_mode = match variant {
        2 => 1,
        3 => 2,
        _ => 0,
    };
    READ_ASYNC.with(|c| c.set(chance(1, 2)));
    // 0 = single; batches of 1-3, now and then of 11-12 (two-digit request indices)
    let n_req = if chance(1, 3) { if chance(1, 8) { 11 + draw(2) as usize } else { 1 + draw(3) as usize } } else { 0 };
    let reqs = n_req.max(1);
    // variables skeleton per request: a (null), b (list of nulls), o ({f:null,n:k})
    let mut vars: Vec<J> = vec![];
    let mut slots: Vec<(usize, String)> = vec![]; // (request index, variable path)
    for i in 0..reqs {
        // list lengths 0-2, now and then 11-12 (two-digit list indices)
        let nb = if chance(1, 10) { 11 + draw(2) as usize } else { draw(3) as usize };
        let nol = draw(3) as usize;
        vars.push(json!({"a": null, "b": vec![J::Null; nb], "o": {"f": null, "n": i + 1, "fs": vec![J::Null; nol]}, "variables": {"f": null, "n": 7}}));
        slots.push((i, "variables.a".into()));
        slots.push((i, "variables.variables.f".into()));
        for k in 0..nb {
            slots.push((i, format!("variables.b.{k}")));
        }
        slots.push((i, "variables.o.f".into()));
        for k in 0..nol {
            slots.push((i, format!("variables.o.fs.{k}")));
        }
    }
    let opts_kind = draw(4);
    let max_file_size: Option<usize> = if opts_kind >= 1 { Some([64usize, 600, 3000][draw(3) as usize]) } else { None };
    let max_num_files: Option<usize> = if opts_kind >= 2 { Some(1 + draw(3) as usize) } else { None };
    let n_files = draw(7) as usize;
    let mut files: Vec<GenFile> = vec![];
    for i in 0..n_files {
        let size = match (max_file_size, draw(4)) {
            (Some(m), 0) => m,
            (Some(m), 1) => m + 1 + draw(5) as usize,
            (Some(m), 2) => m.saturating_sub(1 + draw(3) as usize),
            _ => draw(40) as usize,
        };
        let data: Vec<u8> = {
            // a few boundary look-alikes inside the data, at drawn offsets
            let mut d: Vec<u8> = (0..size).map(|k| (33 + ((k * 7 + i * 13) % 90)) as u8).collect();
            if size > 20 && chance(1, 2) {
                let at = draw(size as u32 - 16) as usize;
                d[at..at + 15].copy_from_slice(b"\r\n--SIMb0undarx");
            }
            d
        };
        files.push(GenFile { name: format!("{i}"), filename: if chance(1, 3) { "same.bin".to_string() } else { format!("f{i}.bin") }, ctype: if chance(1, 2) { Some("application/octet-stream".into()) } else { None }, data });
    }
    if files.iter().enumerate().any(|(i, a)| files.iter().skip(i + 1).any(|b| a.filename == b.filename && a.ctype == b.ctype)) {
        sim::count("probe:two-files-same-filename");
    }
    // map: file name -> paths
    let mut map: BTreeMap<String, Vec<String>> = BTreeMap::new();
    let mut binding: BTreeMap<(usize, String), usize> = BTreeMap::new();
    let mut free = slots.clone();
    for (fi, f) in files.iter().enumerate() {
        if chance(1, 6) {
            continue; // extra file, not mapped
        }
        let npaths = 1 + draw(3) as usize;
        let mut paths = vec![];
        for _ in 0..npaths {
            if free.is_empty() {
                break;
            }
            let (ri, p) = free.remove(draw(free.len() as u32) as usize);
            binding.insert((ri, p.clone()), fi);
            // the hole a map entry points at is usually null; now and then the client left another value there
            if chance(1, 6) {
                let filler = [json!(""), json!("f.bin"), json!({}), json!(0), json!(false), json!([])][draw(6) as usize].clone();
                let mut cur = &mut vars[ri];
                let segs: Vec<&str> = p.split('.').skip(1).collect();
                for (k, seg) in segs.iter().enumerate() {
                    let next = match seg.parse::<usize>() {
                        Ok(i) => cur.get_mut(i),
                        Err(_) => cur.get_mut(*seg),
                    };
                    let Some(next) = next else { break };
                    if k + 1 == segs.len() {
                        *next = filler.clone();
                        sim::count("probe:mapped-position-not-null");
                        break;
                    }
                    cur = next;
                }
            }
            paths.push(if n_req == 0 { p } else { format!("{ri}.{p}") });
        }
        if paths.len() >= 2 {
            sim::count("probe:file-bound-to-several-paths");
        }
        if n_req > 0 && !paths.is_empty() {
            sim::count("probe:batch-path");
        }
        if !paths.is_empty() {
            map.insert(f.name.clone(), paths);
        }
    }
    // a map entry without a file
    let mut missing_file = false;
    if chance(1, 8) && !free.is_empty() {
        let (ri, p) = free.remove(draw(free.len() as u32) as usize);
        map.insert("ghost".into(), vec![if n_req == 0 { p } else { format!("{ri}.{p}") }]);
        missing_file = true;
        sim::count("probe:map-entry-without-file");
    }
    let ops: J = if n_req == 0 { json!({"query": UP_QUERY, "variables": vars[0]}) } else { J::Array(vars.iter().map(|v| json!({"query": UP_QUERY, "variables": v})).collect()) };
    let ops_bytes = serde_json::to_vec(&ops).unwrap();
    let map_bytes = serde_json::to_vec(&map).unwrap();
    let mut parts: Vec<Part> = vec![Part { name: "operations".into(), filename: None, content_type: None, data: ops_bytes.clone() }, Part { name: "map".into(), filename: None, content_type: None, data: map_bytes.clone() }];
    for f in &files {
        parts.push(Part { name: f.name.clone(), filename: Some(f.filename.clone()), content_type: f.ctype.clone(), data: f.data.clone() });
    }
    // permute the part order (the spec puts operations and map first, the library accepts any order)
    if chance(1, 3) {
        for i in (1..parts.len()).rev() {
            let j = draw(i as u32 + 1) as usize;
            parts.swap(i, j);
        }
    }
    let body = multipart_body(&parts);
    // ---- reference model
    let over_size = max_file_size.map(|m| files.iter().any(|f| f.data.len() > m)).unwrap_or(false);
    let over_count = max_num_files.map(|m| files.len() > m).unwrap_or(false);
    if over_size {
        sim::count("probe:file-over-max-size");
    }
    if over_count {
        sim::count("probe:more-files-than-max");
    }
    // a file part that no map entry mentions: the spec is silent, so rejecting it is as good as ignoring it
    let unmapped_file = files.iter().any(|f| !map.contains_key(&f.name));
    if unmapped_file {
        sim::count("probe:unmapped-extra-file");
    }
    let ambiguous = max_file_size.map(|m| ops_bytes.len() > m || map_bytes.len() > m).unwrap_or(false)
        || matches!((max_file_size, max_num_files), (Some(a), Some(b)) if body.len() > a * b);
    if ambiguous {
        sim::count("probe:byte-budget-ambiguous");
    }
    let expect_reject = over_size || over_count || missing_file;
    let mut opts = MultipartOptions::default();
    if let Some(m) = max_file_size {
        opts = opts.max_file_size(m);
    }
    if let Some(m) = max_num_files {
        opts = opts.max_num_files(m);
    }
    let plan = draw_plan(faults, body.len());
    let (reader, stats) = SimReader::new(body.clone(), plan.clone());
    disk_begin(disk_mode);
    let res = decode("multipart", async move {
        let batch = receive_batch_body(Some(mp_content_type()), reader, opts).await.map_err(|e| format!("{e:?}"))?;
        disk_executing();
        let reqs: Vec<Request> = match batch {
            BatchRequest::Single(r) => vec![r],
            BatchRequest::Batch(v) => v,
        };
        let mut outs = vec![];
        for r in reqs {
            outs.push(serde_json::to_value(up_schema().execute(r).await).unwrap());
        }
        Ok::<_, String>(outs)
    });
    let disk = disk_end();
    let st = stats.borrow();
    if st.split_inside_boundary {
        sim::count("probe:chunk-split-inside-boundary");
    }
    if disk.ops > 0 {
        sim::count("probe:upload-spooled-to-disk");
    }
    let desc = format!(
        "options max_file_size={:?} max_num_files={:?}; {} request(s); files {:?}; map {:?}; part order {:?}; reader plan {:?}; disk {disk:?}; async reads {}",
        max_file_size,
        max_num_files,
        if n_req == 0 { "single".to_string() } else { format!("batch of {n_req}") },
        files.iter().map(|f| (f.name.clone(), f.data.len())).collect::<Vec<_>>(),
        map,
        parts.iter().map(|p| p.name.clone()).collect::<Vec<_>>(),
        plan,
        READ_ASYNC.with(|c| c.get())
    );
    let fault_fired = st.truncated || st.errored || disk.errors > 0;
    out.nontrivial = !binding.is_empty() || expect_reject;
    let Some(res) = res else {
        out.viol("C24/stall", format!("decoding did not finish; {desc}"));
        return out;
    };
    match res {
        Err(e) => {
            if fault_fired || ambiguous || unmapped_file {
                // acceptable
            } else if !expect_reject {
                out.viol("C24/valid-request-rejected", format!("rejected with {e}, the reference model accepts; {desc}"));
            }
        }
        Ok(outs) => {
            if st.errored {
                out.viol("C24/io-error-swallowed", format!("an injected transport I/O error was not reported; {desc}"));
            } else if expect_reject && !(st.truncated) {
                let (class, finding): (&str, Option<&'static str>) = if over_count && !over_size && !missing_file { ("C24/too-many-files-accepted", Some("C24-max-num-files-not-enforced")) } else if over_size { ("C24/oversized-file-accepted", None) } else { ("C24/missing-file-accepted", None) };
                let detail = format!("accepted although the reference model rejects (over max_file_size: {over_size}, over max_num_files: {over_count}, map entry without file: {missing_file}); {desc}");
                match finding {
                    Some(f) => out.known(f, class, detail),
                    None => out.viol(class, detail),
                }
            } else if !st.truncated {
                // bindings
                for (ri, o) in outs.iter().enumerate() {
                    let nb = vars[ri]["b"].as_array().unwrap().len();
                    let exp_a = binding.get(&(ri, "variables.a".to_string())).map(|fi| json!(expected_echo(&files[*fi]))).unwrap_or(J::Null);
                    let exp_b: Vec<J> = (0..nb).map(|k| binding.get(&(ri, format!("variables.b.{k}"))).map(|fi| json!(expected_echo(&files[*fi]))).unwrap_or(J::Null)).collect();
                    let exp_o = binding.get(&(ri, "variables.o.f".to_string())).map(|fi| json!(format!("{}#{}", expected_echo(&files[*fi]), ri + 1))).unwrap_or(J::Null);
                    let nol = vars[ri]["o"]["fs"].as_array().unwrap().len();
                    let exp_ol: Vec<J> = (0..nol).map(|k| binding.get(&(ri, format!("variables.o.fs.{k}"))).map(|fi| json!(expected_echo(&files[*fi]))).unwrap_or(J::Null)).collect();
                    let exp_v = binding.get(&(ri, "variables.variables.f".to_string())).map(|fi| json!(format!("{}#7", expected_echo(&files[*fi])))).unwrap_or(J::Null);
                    let exp = json!({"a": exp_a, "b": exp_b, "o": exp_o, "ol": exp_ol, "v": exp_v});
                    if o.get("errors").is_some() || o["data"] != exp {
                        // after an injected disk error the request may fail, or succeed with the right
                        // content (an implementation may retry); it must never bind wrong or truncated data
                        if disk.errors > 0 {
                            out.viol("C24/io-error-swallowed", format!("an injected spool-disk error was not reported and request #{ri} executed to {o}, the reference model binds {exp}; {desc}"));
                        } else {
                            out.viol("C24/wrong-binding", format!("request #{ri} executed to {o}, the reference model binds {exp}; {desc}"));
                        }
                        break;
                    }
                }
            }
            if sim::verbose() {
                out.sample = Some(json!({"description": desc, "body_bytes": body.len(), "responses": outs}));
            }
        }
    }
    out
}

// ------------------------------------------------------------------------------------------------
// C12

pub static C12: CheckDef = CheckDef {
    id: "C12",
    variants: &["http-body", "multipart-hostile", "websocket-hostile", "forged-upload-markers"],
    run: run_c12,
    quick_runs: 300_000,
    thorough_runs: 20_000_000,
    rule: "transport-facing surfaces only. http-body: valid JSON / batch / multipart bodies (one in ten carrying a document from a fixed corpus of 14 hostile documents: fragment cycles, repeated spreads, deep nesting, unknown fragments, huge numbers) mutated at byte level (flips, cuts, duplications, inserted brackets up to depth 200, huge numbers, invalid \\u escapes) and delivered through the simulated reader with chunking, Pending gaps, truncation and I/O errors (ConnectionReset, Interrupted, Other, UnexpectedEof), followed by execution of whatever was decoded. multipart-hostile: broken boundaries, headers without names, map entries of the wrong kind, files without file names, placeholders pre-filled with forged upload markers, and (half of the runs) a spool disk that delays, shortens or fails writes. websocket-hostile: mutated and random message sequences into the real WebSocket under both protocols. forged-upload-markers: variables that forge the internal upload marker with and without uploaded files, and uploads bound through Request::set_upload onto positions that already hold a forged marker. Oracle: no panic (caught per run and attributed by source location), no stall or step-cap once the input has ended, and every malformed input is answered with an error value. Non-trivial = a fault fired or the input was mutated; distinct = distinct event-order hashes.",
    real: &["receive_body / receive_batch_body / receive_json over the simulated reader", "multer", "WebSocket::poll_next", "Upload::parse / Upload::value", "executor on the decoded request"],
    stub: &["request body, client inbox (simulated)", "blocking::Unblock (inline stand-in with the simulator's fault hook)", "async runtime"],
    assumptions: &["stack overflow and allocation failure abort the process and are outside this check; the 200k-bracket parser overflow named in the property's rationale is a pure-input search (fuzzing), not a schedule or fault"],
    restrictions: &["nesting depth of injected brackets is capped at 200; grammar-level fuzzing of the GraphQL parser is not attempted"],
    expected_probes: &["probe:decoded-and-executed", "probe:forged-marker-reached-executor", "probe:ws-closed-on-hostile-input"],
};

fn mutate(mut b: Vec<u8>) -> Vec<u8> {
    for _ in 0..1 + draw(3) {
        if b.is_empty() {
            b.push(b'{');
        }
        let i = draw(b.len() as u32) as usize;
        match draw(8) {
            0 => b[i] ^= 1 << draw(8),
            1 => b.truncate(i),
            2 => {
                let j = (i + draw(20) as usize).min(b.len());
                let seg = b[i..j].to_vec();
                b.splice(i..i, seg);
            }
            3 => {
                let depth = 1 + draw(200) as usize;
                let open = if chance(1, 2) { b'[' } else { b'{' };
                b.splice(i..i, std::iter::repeat(open).take(depth));
            }
            4 => {
                b.splice(i..i, b"123456789012345678901234567890e999".iter().cloned());
            }
            5 => {
                b.splice(i..i, b"\\ud800\\u12".iter().cloned());
            }
            6 => {
                b.remove(i);
            }
            _ => b[i] = draw(256) as u8,
        }
    }
    b
}

fn run_c12(variant: usize) -> CaseOut {
    let mut out = CaseOut::default();
    out.nontrivial = true;
    match variant {
        0 | 1 => {
            let (ct, body): (Option<String>, Vec<u8>) = if variant == 0 {
                let mut r = gen_req();
                // a small fixed corpus of hostile documents rides along (no search over documents: that
                // would be fuzzing); whatever the transport decodes is executed, so these reach the
                // depth check, the validation visitors and the executor
                if chance(1, 10) {
                    const HOSTILE: &[&str] = &[
                        "{ ...F } fragment F on PlainQuery { id ...F }",
                        "{ ...A } fragment A on PlainQuery { ...B } fragment B on PlainQuery { id ...A }",
                        "{ ...F ...F ...F } fragment F on PlainQuery { id }",
                        "{ id ...F ... on PlainQuery { ... on PlainQuery { ... on PlainQuery { ...F } } } } fragment F on PlainQuery { id }",
                        "{ ...Nope }",
                        "{ ...F } fragment F on Nope { id }",
                        "{ plain(n: 99999999999999999999999999) }",
                        "{ plain(s: \"\"\"unterminated) }",
                        "query($a: [[[[[[[[[[[[Int]]]]]]]]]]]]) { id }",
                        "{ __schema { types { fields { type { ofType { ofType { ofType { ofType { name } } } } } } } } }",
                        "{ id @skip(if: false) @skip(if: false) @include(if: true) @include(if: true) @skip(if: false) }",
                        "mutation { ...M } fragment M on UpQuery { plain ...M }",
                    ];
                    let k = draw(HOSTILE.len() as u32 + 2) as usize;
                    r.query = if k < HOSTILE.len() {
                        HOSTILE[k].to_string()
                    } else if k == HOSTILE.len() {
                        format!("{}id{}", "{ a ".repeat(150 + draw(200) as usize), " }".repeat(10))
                    } else {
                        format!("{{ {} }}", (0..400).map(|i| format!("a{i}: id")).collect::<Vec<_>>().join(" "))
                    };
                    r.operation_name = None;
                    sim::count("probe:hostile-document");
                }
                match draw(3) {
                    0 => (Some("application/json".into()), serde_json::to_vec(&json!({"query": UP_QUERY, "variables": {"a": gen_json(0), "b": [gen_json(1)], "o": gen_json(0)}})).unwrap()),
                    1 => (None, serde_json::to_vec(&json!([req_json(&r), {"query": "{ plain(s: \"x\") }"}])).unwrap()),
                    _ => (Some(gen_text()), serde_json::to_vec(&req_json(&r)).unwrap()),
                }
            } else {
                // the placeholders the map points at are usually null, sometimes already filled by the
                // client with a forged internal upload marker or another value
                let ph = |_: u32| match draw(8) {
                    0 => json!("#__graphql_file__:7"),
                    1 => json!("#__graphql_file__:0"),
                    2 => json!(["#__graphql_file__:18446744073709551615", "#__graphql_file__:x"][draw(2) as usize]),
                    3 => gen_json(1),
                    _ => json!(null),
                };
                let one = json!({"query": UP_QUERY, "variables": {"a": ph(0), "b": [ph(1)], "o": {"f": ph(2)}}});
                let ops = if chance(1, 3) { json!([one.clone(), one.clone()]) } else { one };
                let mut parts = vec![
                    Part { name: "operations".into(), filename: None, content_type: match draw(6) {
                        0 => Some("multipart/form-data".into()),
                        1 => Some("multipart/mixed; boundary=x".into()),
                        2 => Some("text/plain; charset=utf-16".into()),
                        3 => Some("application/json".into()),
                        _ => None,
                    }, data: serde_json::to_vec(&ops).unwrap() },
                    Part { name: "map".into(), filename: None, content_type: None, data: match draw(6) {
                        0 => b"{\"0\": [\"variables.a\"]}".to_vec(),
                        1 => b"{\"0\": \"variables.a\"}".to_vec(),
                        2 => b"{\"0\": [\"variables.b.7\", \"variables.o.f.x\", \"nothing\", \"5.variables.a\"]}".to_vec(),
                        4 => b"{\"0\": [\"variables..a\", \"variables.b.\", \"variables.b.99999999999999999999\", \"variables.b.-1\", \"variables.a.x\", \".variables.a\", \"variables\", \"\", \"variables.\"]}".to_vec(),
                        5 => b"{\"0\": [\"0.variables.a\", \".variables.a\", \"abc.variables.a\", \"0.\", \"0\", \"1.variables.b.0\", \"99999999999999999999.variables.a\", \"-1.variables.a\"], \"\": [\"variables.a\"]}".to_vec(),
                        _ => b"[1,2]".to_vec(),
                    } },
                    Part { name: if chance(1, 8) { String::new() } else { "0".into() }, filename: match draw(9) {
                        0 => None,
                        1 => Some(String::new()),
                        // very long names, ASCII and multi-byte, of lengths around typical limits
                        2 => Some("n".repeat(200 + draw(200) as usize)),
                        3 => Some("\u{e9}".repeat(100 + draw(60) as usize)),
                        4 => Some(format!("{}{}", "x".repeat(draw(4) as usize), "\u{597d}".repeat(80 + draw(20) as usize))),
                        _ => Some("a.txt".into()),
                    }, content_type: if chance(1, 2) { Some("text/plain".into()) } else { Some("not a mime".into()) }, data: vec![b'x'; draw(100) as usize] },
                ];
                if chance(1, 3) {
                    parts.swap(0, 2);
                }
                (Some(mp_content_type()), multipart_body(&parts))
            };
            let body = if chance(3, 4) { mutate(body) } else { body };
            let plan = draw_plan(true, body.len());
            let (reader, _stats) = SimReader::new(body.clone(), plan.clone());
            let use_json_fn = variant == 0 && chance(1, 4);
            // hostile multipart bodies also meet a failing disk while their files are spooled
            disk_begin(if variant == 1 && chance(1, 2) { 2 } else { 0 });
            // now and then the client goes away: the request future is dropped after a few polls
            let cancel_polls = if chance(1, 6) { Some(draw(24)) } else { None };
            let res = decode("hostile-body", CancelAfter { polls: cancel_polls.unwrap_or(u32::MAX), inner: Some(Box::pin(async move {
                let decoded = if use_json_fn {
                    receive_json(reader).await.map(BatchRequest::Single)
                } else {
                    receive_batch_body(ct, reader, MultipartOptions::default().max_file_size(4096).max_num_files(3)).await
                };
                match decoded {
                    Err(e) => Err(format!("{e:?}")),
                    Ok(batch) => {
                        sim::count("probe:decoded-and-executed");
                        let resp = up_schema().execute_batch(batch).await;
                        Ok(serde_json::to_value(&resp).unwrap())
                    }
                }
            })) });
            let disk = disk_end();
            if res.is_none() {
                out.viol("C12/stall", format!("decoding a hostile body did not finish; body {:?}; plan {:?}; disk {disk:?}", String::from_utf8_lossy(&body), plan));
            }
            if sim::verbose() {
                out.sample = Some(json!({"body": String::from_utf8_lossy(&body[..body.len().min(400)]), "plan": format!("{:?}", plan), "result": format!("{:?}", res).chars().take(400).collect::<String>()}));
            }
        }
        2 => c12_ws(&mut out),
        _ => {
            // forged upload markers, with and without real uploads
            let markers = ["#__graphql_file__:\u{e9}", "#__graphql_file__:1\u{e9}", "#__graphql_file__: 0", "#__graphql_file__:+0", "#__graphql_file__:x", "#__graphql_file__:0", "#__graphql_file__:99", "#__graphql_file__:", "#__graphql_file__:-1", "#__graphql_file__:18446744073709551616", "#__graphql_file__", "plain"];
            let m = |_: u32| json!(markers[draw(markers.len() as u32) as usize]);
            let vars = json!({"a": m(0), "b": [m(1), null], "o": {"f": m(2), "n": 1}});
            let with_upload = chance(1, 2);
            let bind = chance(1, 3);
            let bind_at = draw(4) as usize;
            let res = decode("forged-marker", async move {
                let mut req = Request::new(UP_QUERY).variables(async_graphql::Variables::from_json(vars));
                if with_upload {
                    // a real upload at index 0, bound to nothing
                    req.uploads.push(new_upload("real.bin", b"real"));
                }
                if bind {
                    // ... and one bound through the public API onto a position that already holds a forged marker
                    req.set_upload(["variables.a", "variables.b.0", "variables.o.f", "variables.b.1"][bind_at], new_upload("bound.bin", b"bound"));
                }
                sim::count("probe:forged-marker-reached-executor");
                serde_json::to_value(up_schema().execute(req).await).unwrap()
            });
            match res {
                None => out.viol("C12/stall", "executing a request with forged upload markers did not finish".to_string()),
                Some(v) => {
                    if sim::verbose() {
                        out.sample = Some(json!({"response": v}));
                    }
                }
            }
        }
    }
    out
}

fn c12_ws(out: &mut CaseOut) {
    world::reset_world();
    world::begin_world_exec();
    sim::begin_exec("ws-hostile");
    sim::draw_params();
    set_latency(draw(1 << 16) as u64, 1);
    let legacy = chance(1, 2);
    let protocol = if legacy { WebSocketProtocols::SubscriptionsTransportWS } else { WebSocketProtocols::GraphQLWS };
    let n = 1 + draw(6);
    let (tx, rx) = sim::channel::<Vec<u8>>();
    let mut msgs = vec![];
    for i in 0..n {
        let base: Vec<u8> = match draw(6) {
            0 => serde_json::to_vec(&json!({"type": "connection_init", "payload": gen_json(0)})).unwrap(),
            1 => serde_json::to_vec(&json!({"type": "subscribe", "id": gen_text(), "payload": {"query": "{ id }", "variables": gen_json(0)}})).unwrap(),
            2 => serde_json::to_vec(&json!({"type": "start", "id": "a", "payload": {"query": "subscription { ticks(ch: 0) }"}})).unwrap(),
            3 => serde_json::to_vec(&json!({"type": "ping", "payload": gen_json(0)})).unwrap(),
            4 => serde_json::to_vec(&json!({"type": "complete", "id": gen_text()})).unwrap(),
            _ => (0..draw(30)).map(|_| draw(256) as u8).collect(),
        };
        let bytes = if chance(1, 2) { mutate(base) } else { base };
        msgs.push(String::from_utf8_lossy(&bytes).to_string());
        let tx2 = tx.clone();
        sim::at(i as u64 * [0u64, 1, 5][draw(3) as usize], move || tx2.push(bytes));
    }
    {
        let tx2 = tx.clone();
        sim::at(200, move || tx2.end());
    }
    let (ctx, crx) = sim::channel::<world::SubItem>();
    world::world(|w| w.channels.insert(0, crx));
    sim::at(50, move || {
        ctx.push(world::SubItem::Node(1));
        ctx.end()
    });
    let ws = WebSocket::new(world::static_schema(0).clone(), rx, protocol);
    let done: std::rc::Rc<std::cell::Cell<bool>> = Default::default();
    let d2 = done.clone();
    sim::spawn_local("ws-consumer", async move {
        let mut ws = Box::pin(ws);
        let mut items = 0u32;
        while let Some(m) = ws.next().await {
            if let WsMessage::Close(_, _) = m {
                sim::count("probe:ws-closed-on-hostile-input");
            }
            items += 1;
            if items % 64 == 0 {
                sim::yield_now().await;
            }
        }
        d2.set(true);
    });
    let end = sim::run(50_000);
    if end != sim::End::Quiescent || !done.get() {
        out.viol("C12/stall", format!("the WebSocket did not finish after the client had gone ({:?}); protocol {:?}; messages {:?}", end, protocol, msgs));
    }
    if sim::verbose() {
        out.sample = Some(json!({"protocol": format!("{:?}", protocol), "messages": msgs}));
    }
    let _ = ClientMessage::from_bytes::<&[u8]>;
}

