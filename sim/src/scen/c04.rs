//! C04 — merged fields resolve once; mutation root fields run one at a time, in order.

use std::collections::{BTreeMap, BTreeSet};

use serde_json::{json, Value as J};

use super::{
    c03::flavour_of,
    exec::*,
    qgen::{gen_operation_full, gen_operation_occ, GenCfg},
    world::{reset_world, RKind},
};
use crate::core::{
    check::{CaseOut, CheckDef},
    sim::{self, draw},
};

pub static DEF: CheckDef = CheckDef {
    id: "C04",
    variants: &["static-query-merge", "dynamic-query-merge", "static-mutation-serial", "dynamic-mutation-serial"],
    run,
    quick_runs: 200_000,
    thorough_runs: 20_000_000,
    rule: "merge variants: generated query/mutation in which response keys are deliberately repeated (directly, by alias collision, through inline and named fragments), fault-free, under a drawn schedule; oracle over the resolver log: at most one resolver start per (parent instance, response key), and every object in the response has exactly the union of the keys selected for it. serial variants: generated mutation with 2-5 gated root fields with sub-selections; oracle: in response-key order, every resolver event below root field i precedes the first event of root field i+1. Non-trivial = a repeated key was resolved / at least two root fields had gated work; distinct = distinct event-order hashes.",
    real: &["async-graphql executor (static and dynamic): field collection, serial/parallel container resolution, value merging"],
    stub: &["async runtime (simulator)", "resolvers (harness, gated, logging start/finish)"],
    assumptions: &["merge variants leave out interface/union-typed fields so that the expected merged key set is computable by the generator"],
    restrictions: &["fault-free workloads only (the property is about invocation counts and ordering)"],
    expected_probes: &["probe:repeated-key-resolved", "probe:mutation-root-with-pending-subtree", "probe:two-resolvers-in-flight"],
};

fn strip_indices(p: &str) -> String {
    p.split('.').filter(|s| !s.chars().all(|c| c.is_ascii_digit())).collect::<Vec<_>>().join(".")
}

fn check_shape(data: &J, prefix: &str, occ: &BTreeMap<String, u32>, out: &mut Vec<String>) {
    match data {
        J::Object(m) => {
            let expect: BTreeSet<String> = occ
                .keys()
                .filter_map(|k| {
                    let rest = if prefix.is_empty() { Some(k.as_str()) } else { k.strip_prefix(prefix).and_then(|r| r.strip_prefix('.')) };
                    rest.filter(|r| !r.contains('.')).map(|r| r.to_string())
                })
                .collect();
            let got: BTreeSet<String> = m.keys().cloned().collect();
            if expect != got {
                out.push(format!("object at '{prefix}' has keys {:?}, the merged selection has {:?}", got, expect));
            }
            for (k, v) in m {
                let p = if prefix.is_empty() { k.clone() } else { format!("{prefix}.{k}") };
                check_shape(v, &p, occ, out);
            }
        }
        J::Array(a) => {
            for v in a {
                check_shape(v, prefix, occ, out);
            }
        }
        _ => {}
    }
}

fn run(variant: usize) -> CaseOut {
    let mut out = CaseOut::default();
    reset_world();
    let flavour = flavour_of(variant);
    if variant < 2 {
        let op = if draw(3) == 0 { "mutation" } else { "query" };
        let cfg = GenCfg { dup_keys: true, typename: false, no_abstract: true, directives: false, max_fields: 14, ..GenCfg::default() };
        let (query, occ) = gen_operation_occ(op, cfg);
        set_latency(draw(1 << 16) as u64, [1u32, 0, 2, 3][draw(4) as usize]);
        let params = sim::draw_params();
        let r = run_request("merge", flavour, 0, &query, Some(params));
        let Some(resp) = r.resp else {
            out.viol("C04/stall", format!("request did not complete: {query}"));
            return out;
        };
        if resp.get("errors").is_some() {
            sim::count("discard:fault-free-run-has-errors");
            out.discarded = true;
            if sim::verbose() {
                out.sample = Some(json!({"query": query, "discarded": resp}));
            }
            return out;
        }
        // (a) resolver starts per (parent instance, response key) == per indexed path
        let mut starts: BTreeMap<String, u32> = BTreeMap::new();
        for e in r.log.iter().filter(|e| e.kind == RKind::Start) {
            *starts.entry(e.path.clone()).or_insert(0) += 1;
        }
        let mut defect_model_hits = 0;
        for (path, n) in &starts {
            if *n > 1 {
                out.nontrivial = true;
                sim::count("probe:repeated-key-resolved");
                // the known defect: every occurrence of a repeated key runs its resolver, i.e. the
                // number of starts equals the number of occurrences of the key path before merging
                let occs = occ.get(&strip_indices(path)).cloned().unwrap_or(0);
                if *n == occs {
                    defect_model_hits += 1;
                    out.known(
                        "C04-repeated-key-resolved-per-occurrence",
                        "C04/resolved-more-than-once",
                        format!("resolver for '{path}' started {n} times (= {occs} occurrences of the response key); query: {query}"),
                    );
                } else {
                    out.viol("C04/resolved-more-than-once", format!("resolver for '{path}' started {n} times, the key occurs {occs} times; query: {query}"));
                }
            }
        }
        if occ.values().any(|n| *n > 1) {
            out.nontrivial = true;
        }
        // (b) merged sub-selections: every object has exactly the union of the selected keys
        let mut problems = vec![];
        check_shape(&data_of(&resp), "", &occ, &mut problems);
        if let Some(p) = problems.first() {
            out.viol("C04/merged-selection-incomplete", format!("{p}; query: {query}; data: {}", r.data_text));
        }
        if sim::verbose() {
            out.sample = Some(json!({"flavour": format!("{:?}", flavour), "query": query, "repeated_key_paths": occ.iter().filter(|(_, n)| **n > 1).collect::<BTreeMap<_, _>>(),
                "starts_gt_1": starts.iter().filter(|(_, n)| **n > 1).collect::<BTreeMap<_, _>>(), "defect_model_hits": defect_model_hits, "data": r.data_text}));
        }
    } else {
        let cfg = GenCfg { typename: false, max_fields: 16, ..GenCfg::default() };
        let (query, _, doc_roots) = gen_operation_full("mutation", cfg);
        set_latency(draw(1 << 16) as u64, [2u32, 1, 3, 0][draw(4) as usize]);
        let params = sim::draw_params();
        let r = run_request("serial", flavour, 0, &query, Some(params));
        let Some(resp) = r.resp else {
            out.viol("C04/stall", format!("request did not complete: {query}"));
            return out;
        };
        if resp.get("errors").is_some() {
            sim::count("discard:fault-free-run-has-errors");
            out.discarded = true;
            return out;
        }
        // root keys in document order (from the generator); the response must list them alike
        let resp_roots: Vec<String> = match serde_json::from_str::<async_graphql::Value>(&r.data_text) {
            Ok(async_graphql::Value::Object(m)) => m.keys().map(|k| k.to_string()).collect(),
            _ => vec![],
        };
        let roots = doc_roots;
        if resp_roots != roots {
            out.viol("C04/mutation-roots-out-of-order", format!("response lists the root fields as {:?}, document order is {:?}; query: {query}", resp_roots, roots));
        }
        let root_of = |p: &str| p.split('.').next().unwrap_or("").to_string();
        let mut first: BTreeMap<String, usize> = BTreeMap::new();
        let mut last: BTreeMap<String, usize> = BTreeMap::new();
        for e in r.log.iter().filter(|e| matches!(e.kind, RKind::Start | RKind::Finish | RKind::Failed(_))) {
            let k = root_of(&e.path);
            first.entry(k.clone()).or_insert(e.seq);
            last.insert(k, e.seq);
        }
        let mut with_subtree = 0;
        for w in roots.windows(2) {
            let (a, b) = (&w[0], &w[1]);
            if let (Some(la), Some(fb)) = (last.get(a), first.get(b)) {
                if la > fb {
                    out.viol("C04/mutation-roots-overlap", format!("root field '{b}' started (log #{fb}) before root field '{a}' had completed (log #{la}); query: {query}"));
                    break;
                }
            }
        }
        for k in &roots {
            if r.log.iter().filter(|e| e.kind == RKind::Start && root_of(&e.path) == *k).count() > 1 {
                with_subtree += 1;
            }
        }
        if with_subtree >= 1 && roots.len() >= 2 {
            out.nontrivial = true;
            sim::count("probe:mutation-root-with-pending-subtree");
        }
        // order of root starts == response order
        let mut by_first: Vec<(usize, String)> = roots.iter().filter_map(|k| first.get(k).map(|s| (*s, k.clone()))).collect();
        by_first.sort();
        let started: Vec<String> = by_first.into_iter().map(|(_, k)| k).collect();
        let expect: Vec<String> = roots.iter().filter(|k| first.contains_key(*k)).cloned().collect();
        if started != expect && out.viols.is_empty() {
            out.viol("C04/mutation-roots-out-of-order", format!("root fields started in order {:?}, document order is {:?}; query: {query}", started, expect));
        }
        if sim::verbose() {
            out.sample = Some(json!({"flavour": format!("{:?}", flavour), "query": query, "root_order": roots, "data": r.data_text}));
        }
    }
    out
}
