//! C31 — persisted queries execute only the document registered under the hash.

use std::{cell::RefCell, collections::BTreeMap, sync::OnceLock};

use async_graphql::{
    extensions::apollo_persisted_queries::{ApolloPersistedQueries, CacheStorage, LruCacheStorage},
    parser::types::ExecutableDocument,
    EmptyMutation, EmptySubscription, Request, Schema, Value,
};
use serde_json::{json, Value as J};
use sha2::{Digest, Sha256};

use super::{exec::set_latency, httpio::BatchQuery, world};
use crate::core::{
    check::{CaseOut, CheckDef},
    sim::{self, chance, draw},
};

pub static DEF: CheckDef = CheckDef {
    id: "C31",
    variants: &["sim-store", "sim-store-faults", "lru-store"],
    run,
    quick_runs: 200_000,
    thorough_runs: 15_000_000,
    rule: "case = real ApolloPersistedQueries extension over a simulated store (exact map with gated get/set, optional lost entries) or the real LruCacheStorage (<= 8 documents per run); 1-4 concurrent client tasks, each sending 1-4 requests: registrations (query + correct hash), hash-only requests, mismatched hashes (other document's hash, garbage, upper-case, a proper prefix of the right hash incl. the empty string, the right hash with trailing characters), wrong versions, malformed persistedQuery payloads, ordinary requests; every document echoes a unique number through a gated harness resolver so the executed document is observable. Oracle (reference model of registrations over the invoke/return history): a registration executes its own document; a hash-only request yields exactly the document whose text hashes to the supplied hash - and only if a registration of it was invoked before the request returned - or PersistedQueryNotFound; mismatched-hash, wrong-version and malformed requests fail and register nothing (no store write with a key that is not the SHA-256 of a registered text; no later hit); every client finishes. Non-trivial = a hash-only request overlapped a registration of the same document, or a rejected request was followed by a hash-only lookup of its hash; distinct = distinct event-order hashes.",
    real: &["ApolloPersistedQueries extension (prepare_request)", "LruCacheStorage / scc HashCache (lru-store variant)", "Schema::execute pipeline"],
    stub: &["CacheStorage (simulated, gated; sim-store variants)", "clients", "resolvers (gated)", "async runtime"],
    assumptions: &["'found whenever registered' is not required (the property allows PersistedQueryNotFound)"],
    restrictions: &["lru-store: at most 8 distinct documents per run, far below the 32-entry bucket at which scc evicts, so behaviour does not depend on the per-process hash seed"],
    expected_probes: &["probe:hash-only-hit", "probe:hash-only-miss", "probe:lookup-overlaps-registration", "probe:lookup-after-rejected-registration"],
};

#[derive(Clone, Debug, PartialEq)]
enum Kind {
    Register(usize),
    HashOnly(usize),
    /// text of doc .0 with the hash of doc .1
    Mismatch(usize, usize),
    GarbageHash(usize),
    UpperHash(usize),
    /// own text with a proper prefix of its hash (length .1, may be 0)
    PrefixHash(usize, usize),
    /// own text with its hash followed by extra characters
    ExtendedHash(usize),
    WrongVersion(usize),
    Malformed(usize, u32),
    Ordinary(usize),
}

#[derive(Clone, Debug)]
struct Rec {
    client: usize,
    kind: Kind,
    invoke: u64,
    ret: Option<(u64, J)>,
}

#[derive(Default)]
struct ApqWorld {
    seq: u64,
    store: BTreeMap<String, ExecutableDocument>,
    sets: Vec<(u64, String)>,
    hist: Vec<Rec>,
    miss_den: u32,
    lat: u32,
}

thread_local! {
    static APQ: RefCell<ApqWorld> = RefCell::new(ApqWorld::default());
}

fn apq<R>(f: impl FnOnce(&mut ApqWorld) -> R) -> R {
    APQ.with(|a| f(&mut a.borrow_mut()))
}

fn next_seq() -> u64 {
    apq(|a| {
        a.seq += 1;
        a.seq
    })
}

#[derive(Clone)]
pub struct SimStore;

#[async_trait::async_trait]
impl CacheStorage for SimStore {
    async fn get(&self, key: String) -> Option<ExecutableDocument> {
        let lat = apq(|a| a.lat);
        sim::count("seam:store-get");
        sim::gate(if lat == 0 { 0 } else { [0u64, 1, 3, 9][draw(4) as usize] }).await;
        let miss = apq(|a| a.miss_den);
        if miss > 0 && chance(1, miss) {
            sim::count("fault:store-miss");
            sim::log_order(format!("store get {} -> lost", &key[..8.min(key.len())]));
            return None;
        }
        let r = apq(|a| a.store.get(&key).cloned());
        sim::log_order(format!("store get {} -> {}", &key[..8.min(key.len())], r.is_some()));
        r
    }

    async fn set(&self, key: String, query: ExecutableDocument) {
        let lat = apq(|a| a.lat);
        sim::count("seam:store-set");
        sim::gate(if lat == 0 { 0 } else { [0u64, 1, 3, 9][draw(4) as usize] }).await;
        let s = next_seq();
        sim::log_order(format!("store set {}", &key[..8.min(key.len())]));
        apq(|a| {
            a.sets.push((s, key.clone()));
            a.store.insert(key, query);
        });
    }
}

fn doc_text(k: usize) -> String {
    // distinct texts; some differ only in white space, letter case of an alias or an operation name
    match k % 6 {
        0 => format!("{{ echo(n: {k}) }}"),
        1 => format!("query Q{k} {{ echo(n: {k}) }}"),
        2 => format!("  {{  echo( n: {k} )  }}\n"),
        3 => format!("{{ echo(n: {k}) second: echo(n: {k}) }}"),
        4 => format!("{{ echo(n: {k}) X: echo(n: 7) }}"),
        _ => format!("{{ echo(n: {}) x: echo(n: 7) }}", k - 1),
    }
}

/// the data a document must produce
fn doc_data(k: usize) -> J {
    match k % 6 {
        3 => json!({"echo": k, "second": k}),
        4 => json!({"echo": k, "X": 7}),
        5 => json!({"echo": k - 1, "x": 7}),
        _ => json!({"echo": k}),
    }
}

fn sha(text: &str) -> String {
    format!("{:x}", Sha256::digest(text.as_bytes()))
}

fn sim_schema() -> &'static Schema<BatchQuery, EmptyMutation, EmptySubscription> {
    static S: OnceLock<Schema<BatchQuery, EmptyMutation, EmptySubscription>> = OnceLock::new();
    S.get_or_init(|| Schema::build(BatchQuery, EmptyMutation, EmptySubscription).extension(ApolloPersistedQueries::new(SimStore)).finish())
}

fn build_request(kind: &Kind) -> Request {
    let pq = |hash: String, version: i64| -> Value { Value::from_json(json!({"version": version, "sha256Hash": hash})).unwrap() };
    match kind {
        Kind::Register(k) => {
            let t = doc_text(*k);
            let mut r = Request::new(t.clone());
            r.extensions.insert("persistedQuery".into(), pq(sha(&t), 1));
            r
        }
        Kind::HashOnly(k) => {
            let mut r = Request::new("");
            r.extensions.insert("persistedQuery".into(), pq(sha(&doc_text(*k)), 1));
            r
        }
        Kind::Mismatch(j, k) => {
            let mut r = Request::new(doc_text(*j));
            r.extensions.insert("persistedQuery".into(), pq(sha(&doc_text(*k)), 1));
            r
        }
        Kind::GarbageHash(j) => {
            let mut r = Request::new(doc_text(*j));
            r.extensions.insert("persistedQuery".into(), pq("deadbeef".into(), 1));
            r
        }
        Kind::UpperHash(j) => {
            let t = doc_text(*j);
            let mut r = Request::new(t.clone());
            r.extensions.insert("persistedQuery".into(), pq(sha(&t).to_uppercase() + "00", 1));
            r
        }
        Kind::PrefixHash(j, n) => {
            let t = doc_text(*j);
            let mut r = Request::new(t.clone());
            r.extensions.insert("persistedQuery".into(), pq(sha(&t)[..*n].to_string(), 1));
            r
        }
        Kind::ExtendedHash(j) => {
            let t = doc_text(*j);
            let mut r = Request::new(t.clone());
            r.extensions.insert("persistedQuery".into(), pq(sha(&t) + "0", 1));
            r
        }
        Kind::WrongVersion(k) => {
            let t = doc_text(*k);
            let mut r = Request::new(t.clone());
            r.extensions.insert("persistedQuery".into(), pq(sha(&t), 2));
            r
        }
        Kind::Malformed(k, m) => {
            let t = doc_text(*k);
            let mut r = Request::new(t.clone());
            let v = match m % 4 {
                0 => json!("oops"),
                1 => json!({"version": "1", "sha256Hash": sha(&t)}),
                2 => json!({"version": 1}),
                _ => json!([1, 2]),
            };
            r.extensions.insert("persistedQuery".into(), Value::from_json(v).unwrap());
            r
        }
        Kind::Ordinary(k) => Request::new(doc_text(*k)),
    }
}

fn run(variant: usize) -> CaseOut {
    let mut out = CaseOut::default();
    world::reset_world();
    world::begin_world_exec();
    let faults = variant == 1;
    let lru = variant == 2;
    APQ.with(|a| *a.borrow_mut() = ApqWorld { miss_den: if faults { [0u32, 8, 3][draw(3) as usize] } else { 0 }, lat: draw(2), ..Default::default() });
    sim::begin_exec("persisted-queries");
    let params = sim::draw_params();
    set_latency(draw(1 << 16) as u64, [1u32, 0, 2][draw(3) as usize]);
    let n_docs = 1 + draw(6) as usize;
    let n_clients = 1 + draw(4) as usize;
    // a registering request may arrive with a document already attached (Request::set_parsed_query):
    // the parse of its own text, or of another text; the hash speaks about the text, so the text's
    // document is what must be registered and executed
    let mut scripts: Vec<Vec<(Kind, Option<usize>)>> = vec![];
    for _ in 0..n_clients {
        let mut s = vec![];
        let mut s2 = vec![];
        for _ in 0..1 + draw(4) {
            let k = draw(n_docs as u32) as usize;
            let j = draw(n_docs as u32) as usize;
            s.push(match draw(14) {
                12 => Kind::PrefixHash(j, [0usize, 1, 32, 63][draw(4) as usize]),
                13 => Kind::ExtendedHash(j),
                0..=2 => Kind::Register(k),
                3..=5 => Kind::HashOnly(k),
                6 => {
                    if j != k { Kind::Mismatch(j, k) } else { Kind::GarbageHash(j) }
                }
                7 => Kind::GarbageHash(j),
                8 => Kind::UpperHash(j),
                9 => Kind::WrongVersion(k),
                10 => Kind::Malformed(k, draw(4)),
                _ => Kind::Ordinary(k),
            });
            let attach = if matches!(s.last(), Some(Kind::Register(_))) && chance(1, 3) {
                sim::count("probe:request-with-attached-document");
                Some(j)
            } else {
                None
            };
            let kind = s.pop().unwrap();
            s2.push((kind, attach));
        }
        let s = s2;
        scripts.push(s);
    }
    let desc = format!("scripts {:?}; params {:?}; store {}", scripts, params, if lru { "LruCacheStorage(64)" } else { "simulated" });
    let lru_schema = if lru { Some(Schema::build(BatchQuery, EmptyMutation, EmptySubscription).extension(ApolloPersistedQueries::new(LruCacheStorage::new(64))).finish()) } else { None };
    let mut tasks = vec![];
    for (c, script) in scripts.iter().enumerate() {
        let script = script.clone();
        let schema = lru_schema.clone();
        let t = sim::spawn_local(&format!("client{c}"), async move {
            for (kind, attach) in script {
                let mut req = build_request(&kind);
                if let Some(j) = attach {
                    req.set_parsed_query(async_graphql::parser::parse_query(doc_text(j)).expect("harness document parses"));
                }
                let invoke = next_seq();
                sim::log_order(format!("client {c} invoke {:?}", kind));
                let idx = apq(|a| {
                    a.hist.push(Rec { client: c, kind: kind.clone(), invoke, ret: None });
                    a.hist.len() - 1
                });
                let resp = match &schema {
                    Some(s) => s.execute(req).await,
                    None => sim_schema().execute(req).await,
                };
                let v = serde_json::to_value(&resp).unwrap();
                let s = next_seq();
                sim::log_order(format!("client {c} return {v}"));
                apq(|a| a.hist[idx].ret = Some((s, v)));
                if chance(1, 3) {
                    sim::sleep(1 + draw(4) as u64).await;
                }
            }
        });
        tasks.push(t);
    }
    let end = sim::run(50_000);
    let (hist, sets) = apq(|a| (a.hist.clone(), a.sets.clone()));
    if end != sim::End::Quiescent || tasks.iter().any(|t| !sim::task_done(*t)) {
        out.viol("C31/stall", format!("a client did not finish ({:?}); {desc}", end));
        return out;
    }
    let ran = |v: &J, k: usize| -> bool { v["data"] == doc_data(k) };
    let is_err = |v: &J| v.get("errors").is_some();
    let not_found = |v: &J| v["errors"].as_array().map(|a| a.iter().any(|e| e["message"] == "PersistedQueryNotFound")).unwrap_or(false);
    let valid_keys: Vec<String> = hist.iter().filter_map(|h| if let Kind::Register(k) = h.kind { Some(sha(&doc_text(k))) } else { None }).collect();
    // store writes: only under the hash of a registered text
    for (_, key) in &sets {
        if !valid_keys.contains(key) {
            out.viol("C31/foreign-store-write", format!("the store was written under key {key}, which is not the SHA-256 of any registered query text; {desc}"));
            return out;
        }
    }
    for h in &hist {
        let (ret_seq, v) = h.ret.clone().unwrap();
        match &h.kind {
            Kind::Register(k) | Kind::Ordinary(k) => {
                if is_err(&v) || !ran(&v, *k) {
                    out.viol("C31/wrong-document-executed", format!("{:?} returned {v}, expected its own document's data {}; {desc}", h.kind, doc_data(*k)));
                    return out;
                }
            }
            Kind::HashOnly(k) => {
                // registrations of k invoked before this request returned
                let registered = hist.iter().any(|r| r.kind == Kind::Register(*k) && r.invoke < ret_seq);
                if hist.iter().any(|r| r.kind == Kind::Register(*k) && r.invoke < ret_seq && r.ret.as_ref().map(|x| x.0 > h.invoke).unwrap_or(true)) {
                    sim::count("probe:lookup-overlaps-registration");
                    out.nontrivial = true;
                }
                if hist.iter().any(|r| matches!(r.kind, Kind::WrongVersion(x) | Kind::Mismatch(_, x) | Kind::PrefixHash(x, _) | Kind::ExtendedHash(x) if x == *k) && r.ret.as_ref().map(|x| x.0 < h.invoke).unwrap_or(false)) {
                    sim::count("probe:lookup-after-rejected-registration");
                    out.nontrivial = true;
                }
                if is_err(&v) {
                    if !not_found(&v) {
                        out.viol("C31/hash-only-wrong-error", format!("hash-only request for document {k} failed with {v} (expected the document or PersistedQueryNotFound); {desc}"));
                        return out;
                    }
                    sim::count("probe:hash-only-miss");
                } else {
                    sim::count("probe:hash-only-hit");
                    if !ran(&v, *k) {
                        out.viol("C31/wrong-document-executed", format!("hash-only request for document {k} executed another document: {v}; {desc}"));
                        return out;
                    }
                    if !registered {
                        out.viol("C31/unregistered-document-executed", format!("hash-only request for document {k} succeeded although no registration of it had been invoked; {desc}"));
                        return out;
                    }
                }
            }
            Kind::Mismatch(..) | Kind::GarbageHash(_) | Kind::UpperHash(_) | Kind::PrefixHash(..) | Kind::ExtendedHash(_) | Kind::WrongVersion(_) | Kind::Malformed(..) => {
                if !is_err(&v) || v["data"].as_object().is_some() {
                    out.viol("C31/invalid-request-executed", format!("{:?} was executed: {v}; {desc}", h.kind));
                    return out;
                }
            }
        }
    }
    if sim::verbose() {
        out.sample = Some(json!({"store": if lru { "lru" } else { "sim" }, "history": hist.iter().map(|h| format!("client {} {:?} [{}..{:?}] -> {}", h.client, h.kind, h.invoke, h.ret.as_ref().map(|r| r.0), h.ret.as_ref().map(|r| r.1.to_string()).unwrap_or_default())).collect::<Vec<_>>(), "store_writes": sets.len()}));
    }
    out
}
