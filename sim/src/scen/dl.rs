//! DataLoader scenarios: C28 (concurrent histories) and C29 (sequential histories vs. a reference cache).

use std::{
    cell::RefCell,
    collections::{BTreeMap, BTreeSet, HashMap},
    sync::Arc,
    time::Duration,
};

use async_graphql::dataloader::{CacheFactory, DataLoader, HashMapCache, Loader, LruCache, NoCache};
use serde_json::json;

use crate::core::{
    check::{CaseOut, CheckDef},
    sim::{self, chance, draw, SimSpawner, SimTimer, TaskId},
};

// ------------------------------------------------------------------------------------------------
// simulated loader

#[derive(Hash, PartialEq, Eq, Clone, Copy, Debug, PartialOrd, Ord)]
pub struct KA(pub u8);
#[derive(Hash, PartialEq, Eq, Clone, Copy, Debug, PartialOrd, Ord)]
pub struct KB(pub u8);

#[derive(Clone, Debug)]
enum CallOutcome {
    Pending,
    Ok { returned: Vec<(u8, u64)>, omitted: Vec<u8> },
    Err(u64),
    Dropped,
}

#[derive(Clone, Debug)]
struct CallRec {
    no: u64,
    kt: u8,
    keys: Vec<u8>,
    dup: bool,
    start: u64,
    end: Option<u64>,
    outcome: CallOutcome,
}

#[derive(Default)]
struct DlWorld {
    seq: u64,
    calls: Vec<CallRec>,
    /// 0 = never, else 1/n
    err_den: u32,
    omit_den: u32,
    lat_set: u32,
}

thread_local! {
    static DL: RefCell<DlWorld> = RefCell::new(DlWorld::default());
}

fn dlw<R>(f: impl FnOnce(&mut DlWorld) -> R) -> R {
    DL.with(|d| f(&mut d.borrow_mut()))
}

fn next_seq() -> u64 {
    dlw(|d| {
        d.seq += 1;
        d.seq
    })
}

pub struct SimLoader;

fn value_of(call_no: u64, key: u8) -> u64 {
    call_no * 1000 + key as u64
}

struct CallGuard(usize, bool);
impl Drop for CallGuard {
    fn drop(&mut self) {
        if !self.1 {
            let s = next_seq();
            dlw(|d| {
                d.calls[self.0].outcome = CallOutcome::Dropped;
                d.calls[self.0].end = Some(s);
            });
        }
    }
}

async fn sim_load(kt: u8, keys: Vec<u8>) -> Result<HashMap<u8, u64>, u64> {
    let mut sorted = keys.clone();
    sorted.sort();
    let dup = sorted.windows(2).any(|w| w[0] == w[1]);
    let start = next_seq();
    let (idx, no) = dlw(|d| {
        let no = d.calls.len() as u64 + 1;
        d.calls.push(CallRec { no, kt, keys: sorted.clone(), dup, start, end: None, outcome: CallOutcome::Pending });
        (d.calls.len() - 1, no)
    });
    sim::log_order(format!("loader call #{no} kt={kt} keys={:?}", sorted));
    sim::count("seam:loader-call");
    let mut guard = CallGuard(idx, false);
    let (err_den, omit_den, lat_set) = dlw(|d| (d.err_den, d.omit_den, d.lat_set));
    let lat = match lat_set {
        0 => 0,
        1 => [0u64, 1, 2, 3][draw(4) as usize],
        _ => [0u64, 1, 5, 40, 400][draw(5) as usize],
    };
    sim::gate(lat).await;
    let fail = err_den > 0 && chance(1, err_den);
    let end = next_seq();
    guard.1 = true;
    if fail {
        sim::count("fault:loader-error");
        dlw(|d| {
            d.calls[idx].end = Some(end);
            d.calls[idx].outcome = CallOutcome::Err(no);
        });
        sim::log_order(format!("loader call #{no} -> Err"));
        return Err(no);
    }
    let mut map = HashMap::new();
    let mut returned = vec![];
    let mut omitted = vec![];
    for k in sorted.iter() {
        if omit_den > 0 && chance(1, omit_den) {
            sim::count("fault:loader-missing-key");
            omitted.push(*k);
        } else {
            map.insert(*k, value_of(no, *k));
            returned.push((*k, value_of(no, *k)));
        }
    }
    sim::log_order(format!("loader call #{no} -> Ok returned={:?} omitted={:?}", returned, omitted));
    dlw(|d| {
        d.calls[idx].end = Some(end);
        d.calls[idx].outcome = CallOutcome::Ok { returned, omitted };
    });
    Ok(map)
}

impl Loader<KA> for SimLoader {
    type Value = u64;
    type Error = u64;
    async fn load(&self, keys: &[KA]) -> Result<HashMap<KA, u64>, u64> {
        let m = sim_load(0, keys.iter().map(|k| k.0).collect()).await?;
        Ok(m.into_iter().map(|(k, v)| (KA(k), v)).collect())
    }
}

impl Loader<KB> for SimLoader {
    type Value = u64;
    type Error = u64;
    async fn load(&self, keys: &[KB]) -> Result<HashMap<KB, u64>, u64> {
        let m = sim_load(1, keys.iter().map(|k| k.0).collect()).await?;
        Ok(m.into_iter().map(|(k, v)| (KB(k), v)).collect())
    }
}

// ------------------------------------------------------------------------------------------------
// operations and history

#[derive(Clone, Debug)]
enum Op {
    Load { kt: u8, keys: Vec<u8>, one: bool },
    Feed { kt: u8, items: Vec<(u8, u64)> },
    Clear { kt: u8 },
    ClearOne { kt: u8, key: u8 },
    EnableAll(bool),
    Enable { kt: u8, on: bool },
    Cached { kt: u8 },
    Sleep(u64),
}

#[derive(Clone, Debug)]
enum Ret {
    Load(Result<Vec<(u8, u64)>, u64>),
    Cached(Vec<(u8, u64)>),
    Unit,
}

#[derive(Clone, Debug)]
struct OpRec {
    client: usize,
    op: Op,
    invoke: u64,
    ret: Option<(u64, Ret)>,
}

thread_local! {
    static HIST: RefCell<Vec<OpRec>> = const { RefCell::new(Vec::new()) };
}

fn hist_push(rec: OpRec) -> usize {
    HIST.with(|h| {
        let mut h = h.borrow_mut();
        h.push(rec);
        h.len() - 1
    })
}

fn hist_ret(idx: usize, ret: Ret) {
    let s = next_seq();
    HIST.with(|h| h.borrow_mut()[idx].ret = Some((s, ret)));
}

async fn do_op<C: CacheFactory>(dl: &DataLoader<SimLoader, C>, client: usize, op: Op) {
    let invoke = next_seq();
    sim::log_order(format!("client {client} invoke {:?}", op));
    let idx = hist_push(OpRec { client, op: op.clone(), invoke, ret: None });
    let ret = match op {
        Op::Load { kt, keys, one } => {
            let r = if kt == 0 {
                if one {
                    dl.load_one(KA(keys[0])).await.map(|v| v.map(|v| vec![(keys[0], v)]).unwrap_or_default())
                } else {
                    dl.load_many(keys.iter().map(|k| KA(*k))).await.map(|m| m.into_iter().map(|(k, v)| (k.0, v)).collect::<Vec<_>>())
                }
            } else if one {
                dl.load_one(KB(keys[0])).await.map(|v| v.map(|v| vec![(keys[0], v)]).unwrap_or_default())
            } else {
                dl.load_many(keys.iter().map(|k| KB(*k))).await.map(|m| m.into_iter().map(|(k, v)| (k.0, v)).collect::<Vec<_>>())
            };
            Ret::Load(r.map(|mut v| {
                v.sort();
                v
            }))
        }
        Op::Feed { kt, items } => {
            if kt == 0 {
                dl.feed_many(items.iter().map(|(k, v)| (KA(*k), *v))).await;
            } else {
                dl.feed_many(items.iter().map(|(k, v)| (KB(*k), *v))).await;
            }
            Ret::Unit
        }
        Op::Clear { kt } => {
            if kt == 0 { dl.clear::<KA>() } else { dl.clear::<KB>() }
            Ret::Unit
        }
        Op::ClearOne { kt, key } => {
            if kt == 0 { dl.clear_one(&KA(key)) } else { dl.clear_one(&KB(key)) }
            Ret::Unit
        }
        Op::EnableAll(on) => {
            dl.enable_all_cache(on);
            Ret::Unit
        }
        Op::Enable { kt, on } => {
            if kt == 0 { dl.enable_cache::<KA>(on).await } else { dl.enable_cache::<KB>(on).await }
            Ret::Unit
        }
        Op::Cached { kt } => {
            let mut v: Vec<(u8, u64)> = if kt == 0 {
                dl.get_cached_values::<KA>().await.into_iter().map(|(k, v)| (k.0, v)).collect()
            } else {
                dl.get_cached_values::<KB>().await.into_iter().map(|(k, v)| (k.0, v)).collect()
            };
            v.sort();
            Ret::Cached(v)
        }
        Op::Sleep(d) => {
            sim::sleep(d).await;
            Ret::Unit
        }
    };
    sim::log_order(format!("client {client} return {:?}", ret));
    hist_ret(idx, ret);
}

#[derive(Clone, Copy, Debug, PartialEq, Eq)]
enum CacheKind {
    None,
    Map,
    Lru(usize),
}

#[derive(Clone, Debug)]
struct Cfg {
    cache: CacheKind,
    max_batch: usize,
    delay_us: u64,
    timer_late: bool,
}

fn feed_value(n: u64, key: u8) -> u64 {
    900_000_000 + n * 1000 + key as u64
}

struct RunOut {
    hist: Vec<OpRec>,
    calls: Vec<CallRec>,
    stalled_tasks: Vec<String>,
    cancelled: BTreeSet<usize>,
    end: sim::End,
}

fn run_clients<C: CacheFactory>(factory: C, cfg: &Cfg, scripts: Vec<Vec<Op>>, cancels: Vec<(u64, usize)>) -> RunOut {
    HIST.with(|h| h.borrow_mut().clear());
    let dl = Arc::new(
        DataLoader::with_cache(SimLoader, SimSpawner, SimTimer { late: cfg.timer_late }, factory).max_batch_size(cfg.max_batch).delay(Duration::from_micros(cfg.delay_us)),
    );
    let mut tasks: Vec<TaskId> = vec![];
    for (i, script) in scripts.into_iter().enumerate() {
        let dl = dl.clone();
        let t = sim::spawn_local(&format!("client{i}"), async move {
            for op in script {
                do_op(&*dl, i, op).await;
            }
        });
        tasks.push(t);
    }
    let cancelled: std::rc::Rc<RefCell<BTreeSet<usize>>> = Default::default();
    for (at, client) in cancels {
        let t = tasks[client];
        let c2 = cancelled.clone();
        sim::at(at, move || {
            if !sim::task_done(t) {
                sim::count("fault:cancel-client");
                c2.borrow_mut().insert(client);
                sim::cancel(t);
            }
        });
    }
    let end = sim::run(20_000);
    let stalled: Vec<String> = sim::unfinished_tasks();
    drop(dl);
    let hist = HIST.with(|h| h.borrow().clone());
    let calls = dlw(|d| d.calls.clone());
    let cancelled = cancelled.borrow().clone();
    RunOut { hist, calls, stalled_tasks: stalled, cancelled, end }
}

fn run_with_cache(cfg: &Cfg, scripts: Vec<Vec<Op>>, cancels: Vec<(u64, usize)>) -> RunOut {
    match cfg.cache {
        CacheKind::None => run_clients(NoCache, cfg, scripts, cancels),
        CacheKind::Map => run_clients(HashMapCache::default(), cfg, scripts, cancels),
        CacheKind::Lru(n) => run_clients(LruCache::new(n), cfg, scripts, cancels),
    }
}

fn reset_dl(err_den: u32, omit_den: u32, lat_set: u32) {
    dlw(|d| *d = DlWorld { seq: 0, calls: vec![], err_den, omit_den, lat_set });
}

// ------------------------------------------------------------------------------------------------
// C28

pub static C28: CheckDef = CheckDef {
    id: "C28",
    variants: &["fault-free", "faults"],
    run: run_c28,
    quick_runs: 300_000,
    thorough_runs: 20_000_000,
    rule: "case = real DataLoader over a simulated loader, spawner and timer; cache NoCache / HashMapCache / LruCache(cap >= key universe), max_batch_size 1-4, delay 0/1/50us; 1-5 concurrent client tasks each running a drawn script of load_one / load_many (0-4 keys of 4, duplicates allowed, two key types) / feed / clear / clear_one / enable toggles; 'faults' adds failing loader calls, omitted keys, late timers and cancellation of a client at a drawn time. Schedule = caller progress x spawned-task order x timer firing x loader completion. Oracle over the recorded history (global event sequence numbers): every loader batch is duplicate-free and smaller than max_batch_size + largest single request; every returned (key,value) is attributable to a loader call for that key that had ended, or a feed that had been made, by the time the load returned (with NoCache: to a call that ended inside the load's interval); a key is absent only if a loader call in the interval omitted it; an error is the error of a loader call inside the interval that contained the request's keys; at quiescence every non-cancelled load has returned. Non-trivial = >=2 loads overlapped in time; distinct = distinct event-order hashes.",
    real: &["async_graphql::dataloader::DataLoader (load_many / do_load / delayed fetch task / immediate load task / caches)", "scc HashMap", "futures-channel oneshot"],
    stub: &["Loader (simulated, gated, faulty)", "Spawn (simulator tasks)", "Timer (simulated clock, may fire late)", "client tasks"],
    assumptions: &["spawned tasks and timers run (the property says so): spawn never fails and every timer eventually fires", "thread-level pre-emption inside the entry locks is not explored (no lock is held across an await)"],
    restrictions: &["LruCache capacity >= key universe so that HashMap iteration order of a batch result cannot influence evictions"],
    expected_probes: &["probe:loads-overlap", "probe:immediate-load-while-fetch-timer-pending", "probe:cancelled-waiter-in-batch", "probe:batch-over-max"],
};

fn gen_script(n_ops: u32, allow_admin: bool) -> Vec<Op> {
    let mut v = vec![];
    for _ in 0..n_ops {
        let kt = if chance(1, 4) { 1 } else { 0 };
        let w = if allow_admin { draw(15) } else { draw(9) };
        let op = match w {
            0..=3 => Op::Load { kt, keys: vec![draw(4) as u8], one: true },
            4..=7 => {
                let n = draw(5);
                Op::Load { kt, keys: (0..n).map(|_| draw(4) as u8).collect(), one: false }
            }
            8 => Op::Sleep([1u64, 2, 60][draw(3) as usize]),
            9 => Op::Feed { kt, items: vec![] }, // filled below
            10 => Op::ClearOne { kt, key: draw(4) as u8 },
            11 => Op::Clear { kt },
            12 => Op::EnableAll(chance(1, 2)),
            13 => Op::Enable { kt, on: chance(1, 2) },
            _ => Op::Cached { kt },
        };
        v.push(op);
    }
    v
}

fn run_c28(variant: usize) -> CaseOut {
    let mut out = CaseOut::default();
    let faults = variant == 1;
    let cache = match draw(3) {
        0 => CacheKind::Map,
        1 => CacheKind::None,
        _ => CacheKind::Lru(4 + draw(2) as usize),
    };
    let cfg = Cfg { cache, max_batch: 1 + draw(4) as usize, delay_us: [1u64, 0, 50][draw(3) as usize], timer_late: faults && chance(1, 2) };
    let n_clients = 1 + draw(5) as usize;
    let (err_den, omit_den) = if faults { ([0u32, 20, 4][draw(3) as usize], [0u32, 20, 4][draw(3) as usize]) } else { (0, 0) };
    reset_dl(err_den, omit_den, draw(3));
    sim::begin_exec("dataloader");
    let params = sim::draw_params();
    let mut feed_n = 0u64;
    let mut scripts = vec![];
    for _ in 0..n_clients {
        let mut s = gen_script(1 + draw(4), true);
        for op in s.iter_mut() {
            if let Op::Feed { items, .. } = op {
                feed_n += 1;
                let k = draw(4) as u8;
                *items = vec![(k, feed_value(feed_n, k))];
            }
        }
        scripts.push(s);
    }
    let mut cancels = vec![];
    if faults && chance(1, 2) {
        cancels.push(([1u64, 2, 3, 10, 51][draw(5) as usize], draw(n_clients as u32) as usize));
    }
    let largest: BTreeMap<u8, usize> = {
        let mut m = BTreeMap::new();
        for s in &scripts {
            for op in s {
                if let Op::Load { kt, keys, .. } = op {
                    let n = keys.iter().collect::<BTreeSet<_>>().len();
                    let e = m.entry(*kt).or_insert(0);
                    *e = (*e).max(n);
                }
            }
        }
        m
    };
    let desc = format!("cfg {:?} params {:?} err 1/{err_den} omit 1/{omit_den} scripts {:?} cancels {:?}", cfg, params, scripts, cancels);
    let r = run_with_cache(&cfg, scripts, cancels);
    check_c28(&cfg, &r, &largest, &desc, &mut out);
    if sim::verbose() {
        out.sample = Some(json!({"config": format!("{:?}", cfg), "clients": n_clients, "history": r.hist.iter().map(|h| format!("{:?}", h)).collect::<Vec<_>>(),
            "loader_calls": r.calls.iter().map(|c| format!("{:?}", c)).collect::<Vec<_>>()}));
    }
    out
}

fn check_c28(cfg: &Cfg, r: &RunOut, largest: &BTreeMap<u8, usize>, desc: &str, out: &mut CaseOut) {
    // liveness
    if r.end != sim::End::Quiescent {
        out.viol("C28/no-progress", format!("step cap reached; {desc}"));
        return;
    }
    for h in &r.hist {
        if h.ret.is_none() && !r.cancelled.contains(&h.client) {
            out.viol("C28/stall", format!("operation never returned although all tasks and timers ran: {:?}; unfinished tasks {:?}; {desc}", h, r.stalled_tasks));
            return;
        }
    }
    // batch shape
    for c in &r.calls {
        if c.dup {
            out.viol("C28/duplicate-key-in-batch", format!("loader call {:?}; {desc}", c));
            return;
        }
        let l = largest.get(&c.kt).cloned().unwrap_or(1).max(1);
        if c.keys.len() > cfg.max_batch {
            sim::count("probe:batch-over-max");
        }
        if c.keys.len() >= cfg.max_batch + l {
            out.viol("C28/batch-too-large", format!("batch of {} keys with max_batch_size {} and largest single request {}: {:?}; {desc}", c.keys.len(), cfg.max_batch, l, c));
            return;
        }
    }
    // overlap probe
    let loads: Vec<&OpRec> = r.hist.iter().filter(|h| matches!(h.op, Op::Load { .. })).collect();
    let mut overlap = false;
    for a in &loads {
        for b in &loads {
            if a.invoke < b.invoke {
                let a_end = a.ret.as_ref().map(|r| r.0).unwrap_or(u64::MAX);
                if b.invoke < a_end {
                    overlap = true;
                }
            }
        }
    }
    if overlap {
        sim::count("probe:loads-overlap");
        out.nontrivial = true;
    }
    // a cancelled waiter whose keys ended up in a batch
    for h in r.hist.iter().filter(|h| h.ret.is_none() && r.cancelled.contains(&h.client)) {
        if let Op::Load { kt, keys, .. } = &h.op {
            if r.calls.iter().any(|c| c.kt == *kt && c.start > h.invoke && c.keys.iter().any(|k| keys.contains(k))) {
                sim::count("probe:cancelled-waiter-in-batch");
            }
        }
    }
    // immediate load while a fetch timer is pending: two calls of one key type whose intervals overlap
    for a in &r.calls {
        for b in &r.calls {
            if a.no < b.no && a.kt == b.kt && b.start < a.end.unwrap_or(u64::MAX) {
                sim::count("probe:immediate-load-while-fetch-timer-pending");
            }
        }
    }
    let feeds: Vec<(u64, u8, u8, u64)> = r
        .hist
        .iter()
        .filter_map(|h| if let Op::Feed { kt, items } = &h.op { Some(items.iter().map(|(k, v)| (h.invoke, *kt, *k, *v)).collect::<Vec<_>>()) } else { None })
        .flatten()
        .collect();
    let cache_possible = cfg.cache != CacheKind::None;
    for h in &loads {
        let Op::Load { kt, keys, .. } = &h.op else { continue };
        let Some((ret_seq, ret)) = &h.ret else { continue };
        let want: BTreeSet<u8> = keys.iter().cloned().collect();
        match ret {
            Ret::Load(Ok(items)) => {
                let got: BTreeMap<u8, u64> = items.iter().cloned().collect();
                for (k, v) in &got {
                    if !want.contains(k) {
                        out.viol("C28/unrequested-key", format!("load {:?} returned key {k} it did not ask for; {desc}", h));
                        return;
                    }
                    // attributable?
                    let from_call = r.calls.iter().any(|c| {
                        c.kt == *kt
                            && c.end.map(|e| e < *ret_seq).unwrap_or(false)
                            // without a cache the call must at least have ended inside the load's interval
                            // (joining a call that was already in flight would be legitimate de-duplication)
                            && (cache_possible || c.end.map(|e| e > h.invoke).unwrap_or(false))
                            && matches!(&c.outcome, CallOutcome::Ok { returned, .. } if returned.contains(&(*k, *v)))
                    });
                    let from_feed = cache_possible && feeds.iter().any(|(inv, fkt, fk, fv)| fkt == kt && fk == k && fv == v && *inv < *ret_seq);
                    if !from_call && !from_feed {
                        out.viol("C28/unattributable-value", format!("load {:?} returned {k} -> {v}, which no loader call for that key (ended before the load returned{}) or feed produced; calls {:?}; {desc}", h, if cache_possible { "" } else { ", started inside the load's interval" }, r.calls));
                        return;
                    }
                }
                for k in &want {
                    if !got.contains_key(k) {
                        // absent: only if a loader call overlapping the interval omitted it
                        let omitted = r.calls.iter().any(|c| c.kt == *kt && c.end.map(|e| e > h.invoke && e < *ret_seq).unwrap_or(false) && matches!(&c.outcome, CallOutcome::Ok { omitted, .. } if omitted.contains(k)));
                        if !omitted {
                            out.viol("C28/missing-key", format!("load {:?} did not return key {k} although no loader call in its interval omitted it; calls {:?}; {desc}", h, r.calls));
                            return;
                        }
                    }
                }
            }
            Ret::Load(Err(e)) => {
                let ok = r.calls.iter().any(|c| c.kt == *kt && c.no == *e && c.end.map(|x| x > h.invoke && x < *ret_seq).unwrap_or(false) && matches!(c.outcome, CallOutcome::Err(_)) && c.keys.iter().any(|k| want.contains(k)));
                if !ok {
                    out.viol("C28/foreign-error", format!("load {:?} failed with error {e}, which is not the error of a loader call it joined; calls {:?}; {desc}", h, r.calls));
                    return;
                }
            }
            _ => {}
        }
    }
}

// ------------------------------------------------------------------------------------------------
// C29: sequential histories against a reference cache model

pub static C29: CheckDef = CheckDef {
    id: "C29",
    variants: &["nocache", "hashmap", "lru"],
    run: run_c29,
    quick_runs: 300_000,
    thorough_runs: 20_000_000,
    rule: "case = one client running a drawn history of up to 40 operations (load_one, load_many with duplicates, feed, clear, clear_one, enable_all_cache, enable_cache::<K>, get_cached_values; two key types; any operation may come first on a fresh loader) against the real DataLoader with NoCache / HashMapCache / LruCache(1-3), max_batch_size 1-4; each operation is awaited to completion under the simulator (timer and spawned tasks still run through the seams); the loader may omit keys or fail. Oracle: executable reference model (map / exact LRU where get and put promote and iteration does not / nothing; global and per-type enable flags; values loaded while caching is disabled are not inserted; feeds insert regardless): every result, the key set of every loader call and get_cached_values are compared operation by operation; a panic is a violation. Non-trivial = the history contained a cache hit and (for LRU) an eviction, or an enable toggle; distinct = distinct event-order hashes.",
    real: &["async_graphql::dataloader::DataLoader and its cache storages (NoCacheImpl, HashMapCacheImpl, LruCacheImpl / lru crate)"],
    stub: &["Loader (simulated)", "Spawn, Timer (simulator)"],
    assumptions: &["sequential histories: the documented cache behaviour is only unambiguous when operations do not overlap (C28 covers overlap)"],
    restrictions: &["LruCache: a load has at most one missing key, because a batch result is inserted in HashMap iteration order (std RandomState), which is not controllable and not specified"],
    expected_probes: &["probe:cache-hit", "probe:lru-eviction", "probe:load-while-disabled", "probe:first-op-on-fresh-loader-is-admin"],
};

#[derive(Default, Clone)]
struct ModelCache {
    kind: Option<CacheKind>,
    // recency order: front = least recently used
    items: Vec<(u8, u64)>,
}

impl ModelCache {
    fn get(&mut self, k: u8) -> Option<u64> {
        match self.kind {
            Some(CacheKind::None) | None => None,
            Some(CacheKind::Map) => self.items.iter().find(|(kk, _)| *kk == k).map(|(_, v)| *v),
            Some(CacheKind::Lru(_)) => {
                let pos = self.items.iter().position(|(kk, _)| *kk == k)?;
                let it = self.items.remove(pos);
                self.items.push(it);
                Some(it.1)
            }
        }
    }
    fn put(&mut self, k: u8, v: u64) -> bool {
        match self.kind {
            Some(CacheKind::None) | None => false,
            Some(CacheKind::Map) => {
                if let Some(e) = self.items.iter_mut().find(|(kk, _)| *kk == k) {
                    e.1 = v;
                } else {
                    self.items.push((k, v));
                }
                false
            }
            Some(CacheKind::Lru(cap)) => {
                if let Some(pos) = self.items.iter().position(|(kk, _)| *kk == k) {
                    self.items.remove(pos);
                }
                self.items.push((k, v));
                if self.items.len() > cap {
                    self.items.remove(0);
                    return true;
                }
                false
            }
        }
    }
    fn remove(&mut self, k: u8) {
        self.items.retain(|(kk, _)| *kk != k);
    }
    fn contents(&self) -> Vec<(u8, u64)> {
        let mut v = self.items.clone();
        v.sort();
        v
    }
}

struct SeqState {
    model: [ModelCache; 2],
    type_enabled: [bool; 2],
    global_enabled: bool,
    hits: u32,
    toggles: u32,
    evictions: u32,
    viol: Option<(String, String)>,
    trace: Vec<String>,
}

/// One client: draw the next operation (consulting the reference model so that the LRU restriction
/// can be honoured), execute it to completion, compare, repeat.
async fn seq_client<C: CacheFactory>(dl: Arc<DataLoader<SimLoader, C>>, cache: CacheKind, n_ops: u32, st: std::rc::Rc<RefCell<SeqState>>) {
    let mut feed_n = 0;
    for i in 0..n_ops {
        let kt = if chance(1, 4) { 1usize } else { 0 };
        let w = draw(16);
        let op = match w {
            0..=3 => Op::Load { kt: kt as u8, keys: vec![draw(4) as u8], one: true },
            4..=6 => {
                let n = draw(5);
                let mut keys: Vec<u8> = (0..n).map(|_| draw(4) as u8).collect();
                if let CacheKind::Lru(_) = cache {
                    let s = st.borrow();
                    let enabled = s.global_enabled && s.type_enabled[kt];
                    if enabled {
                        // at most one distinct key that misses (see `restrictions`)
                        let mut miss: Option<u8> = None;
                        keys.retain(|k| {
                            let cached = s.model[kt].items.iter().any(|(kk, _)| kk == k);
                            if cached {
                                true
                            } else {
                                match miss {
                                    None => {
                                        miss = Some(*k);
                                        true
                                    }
                                    Some(m) => m == *k,
                                }
                            }
                        });
                    }
                }
                Op::Load { kt: kt as u8, keys, one: false }
            }
            7 | 8 => {
                // one to three items per feed (fed in the given order)
                let mut items = vec![];
                for _ in 0..1 + draw(3) {
                    feed_n += 1;
                    let k = draw(4) as u8;
                    items.push((k, feed_value(feed_n, k)));
                }
                Op::Feed { kt: kt as u8, items }
            }
            9 => Op::ClearOne { kt: kt as u8, key: draw(4) as u8 },
            10 => Op::Clear { kt: kt as u8 },
            11 => Op::EnableAll(chance(1, 2)),
            12 => Op::Enable { kt: kt as u8, on: chance(1, 2) },
            _ => Op::Cached { kt: kt as u8 },
        };
        if i == 0 && !matches!(op, Op::Load { .. }) {
            sim::count("probe:first-op-on-fresh-loader-is-admin");
        }
        let first_call = dlw(|d| d.calls.len());
        do_op(&*dl, 0, op.clone()).await;
        let rec = HIST.with(|h| h.borrow().last().cloned().unwrap());
        let ret = rec.ret.clone().unwrap().1;
        let calls: Vec<CallRec> = dlw(|d| d.calls[first_call..].to_vec());
        let mut s = st.borrow_mut();
        s.trace.push(format!("{:?} -> {:?}", op, ret));
        match &op {
            Op::Load { kt, keys, .. } => {
                let kti = *kt as usize;
                let enabled = s.global_enabled && s.type_enabled[kti];
                if !enabled {
                    sim::count("probe:load-while-disabled");
                }
                let mut expect: BTreeMap<u8, u64> = BTreeMap::new();
                let mut misses: BTreeSet<u8> = BTreeSet::new();
                for k in keys {
                    if enabled {
                        if let Some(v) = s.model[kti].get(*k) {
                            s.hits += 1;
                            sim::count("probe:cache-hit");
                            expect.insert(*k, v);
                            continue;
                        }
                    }
                    misses.insert(*k);
                }
                let called: BTreeSet<u8> = calls.iter().filter(|c| c.kt == *kt).flat_map(|c| c.keys.iter().cloned()).collect();
                if calls.iter().any(|c| c.kt != *kt) || called != misses {
                    s.viol = Some(("C29/loader-keys".into(), format!("operation #{i} {:?}: the loader was asked for {:?}, the reference cache misses {:?} (caching enabled: {enabled})", op, called, misses)));
                    return;
                }
                // (an implementation may call the loader again, e.g. a retry: the last call decides)
                let mut failed = None;
                for c in &calls {
                    match &c.outcome {
                        CallOutcome::Ok { returned, .. } => {
                            failed = None;
                            for (k, v) in returned {
                                expect.insert(*k, *v);
                                if enabled && s.model[kti].put(*k, *v) {
                                    s.evictions += 1;
                                    sim::count("probe:lru-eviction");
                                }
                            }
                        }
                        CallOutcome::Err(e) => failed = Some(*e),
                        _ => {}
                    }
                }
                let expect_ret = match failed {
                    Some(e) => Err(e),
                    None => Ok(expect.into_iter().collect::<Vec<_>>()),
                };
                if let Ret::Load(got) = &ret {
                    if *got != expect_ret {
                        s.viol = Some(("C29/load-result".into(), format!("operation #{i} {:?} returned {:?}, the reference model says {:?} (caching enabled: {enabled})", op, got, expect_ret)));
                        return;
                    }
                }
            }
            Op::Feed { kt, items } => {
                for (k, v) in items {
                    if s.model[*kt as usize].put(*k, *v) {
                        s.evictions += 1;
                        sim::count("probe:lru-eviction");
                    }
                }
            }
            Op::Clear { kt } => s.model[*kt as usize].items.clear(),
            Op::ClearOne { kt, key } => s.model[*kt as usize].remove(*key),
            Op::EnableAll(on) => {
                s.toggles += 1;
                s.global_enabled = *on
            }
            Op::Enable { kt, on } => {
                s.toggles += 1;
                s.type_enabled[*kt as usize] = *on
            }
            Op::Cached { kt } => {
                if let Ret::Cached(got) = &ret {
                    let want = s.model[*kt as usize].contents();
                    if *got != want {
                        s.viol = Some(("C29/cached-values".into(), format!("operation #{i}: get_cached_values returned {:?}, the reference cache holds {:?}", got, want)));
                        return;
                    }
                }
            }
            Op::Sleep(_) => {}
        }
    }
}

fn seq_run<C: CacheFactory>(factory: C, cfg: &Cfg, n_ops: u32, st: std::rc::Rc<RefCell<SeqState>>) -> (sim::End, bool) {
    HIST.with(|h| h.borrow_mut().clear());
    let dl = Arc::new(DataLoader::with_cache(SimLoader, SimSpawner, SimTimer { late: false }, factory).max_batch_size(cfg.max_batch).delay(Duration::from_micros(cfg.delay_us)));
    let t = sim::spawn_local("client", seq_client(dl, cfg.cache, n_ops, st));
    let end = sim::run(50_000);
    (end, sim::task_done(t))
}

fn run_c29(variant: usize) -> CaseOut {
    let mut out = CaseOut::default();
    let cache = match variant {
        0 => CacheKind::None,
        1 => CacheKind::Map,
        _ => CacheKind::Lru(1 + draw(3) as usize),
    };
    let cfg = Cfg { cache, max_batch: 1 + draw(4) as usize, delay_us: [1u64, 0, 50][draw(3) as usize], timer_late: false };
    let (err_den, omit_den) = ([0u32, 0, 8][draw(3) as usize], [0u32, 0, 6][draw(3) as usize]);
    reset_dl(err_den, omit_den, draw(2));
    sim::begin_exec("dataloader-sequential");
    sim::draw_params();
    let n_ops = 1 + draw(40);
    let st = std::rc::Rc::new(RefCell::new(SeqState {
        model: [ModelCache { kind: Some(cache), items: vec![] }, ModelCache { kind: Some(cache), items: vec![] }],
        type_enabled: [true, true],
        global_enabled: true,
        hits: 0,
        toggles: 0,
        evictions: 0,
        viol: None,
        trace: vec![],
    }));
    let (end, done) = match cache {
        CacheKind::None => seq_run(NoCache, &cfg, n_ops, st.clone()),
        CacheKind::Map => seq_run(HashMapCache::default(), &cfg, n_ops, st.clone()),
        CacheKind::Lru(n) => seq_run(LruCache::new(n), &cfg, n_ops, st.clone()),
    };
    let s = st.borrow();
    let desc = format!("cfg {:?} err 1/{err_den} omit 1/{omit_den}; history: {:?}", cfg, s.trace);
    if let Some((class, detail)) = &s.viol {
        out.viol(class.clone(), format!("{detail}; {desc}"));
    } else if end != sim::End::Quiescent || !done {
        let pending = HIST.with(|h| h.borrow().iter().find(|h| h.ret.is_none()).map(|h| format!("{:?}", h.op)));
        out.viol("C29/stall", format!("operation {:?} of a sequential history never returned ({:?}); {desc}", pending, end));
    }
    out.nontrivial = s.hits > 0 || s.toggles > 0 || s.evictions > 0;
    if sim::verbose() {
        out.sample = Some(json!({"config": format!("{:?}", cfg), "history": s.trace, "cache_hits": s.hits, "evictions": s.evictions, "enable_toggles": s.toggles}));
    }
    out
}
