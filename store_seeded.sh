#!/bin/bash
# store_seeded.sh <PROP> <n> "<what>" "<needs>"   — copies /tmp/wt-<PROP>/SEEDED into /verif/seeded/<PROP>-<n>
set -e
P=$1; N=$2; WHAT=$3; NEEDS=$4; WT=${5:-$P}
d=/verif/seeded/$P-$N; mkdir -p $d
cp /tmp/wt-$WT/SEEDED/patch.diff $d/; cp /tmp/wt-$WT/SEEDED/seeded_*.rs $d/ 2>/dev/null || true; cp /tmp/wt-$WT/SEEDED/NOTES.md $d/ 2>/dev/null || true
python3 - "$P" "$WHAT" "$NEEDS" "$d" <<'PY'
import json,sys
p,what,needs,d=sys.argv[1:5]
json.dump({"property":p,"origin":"independent sub-agent (saw only the property text and a scratch worktree)","what":what,"needs":needs,"detected_by":[p],"ran":"see NOTES.md (agent) and DESIGN §9 (confirmation by confirm_seeded.sh and mutants.sh)"},open(d+'/meta.json','w'),indent=1)
PY
git -C /repo worktree remove --force /tmp/wt-$WT
echo stored $d
