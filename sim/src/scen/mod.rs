pub mod c03;
pub mod exec;
pub mod exts;
pub mod qgen;
pub mod world;
