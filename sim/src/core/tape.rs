//! The choice tape: the single source of every decision in a run.
//!
//! Generation mode: values come from a SplitMix64 stream and are recorded.
//! Replay mode: values come from a recorded vector; when it runs out it yields 0.
//! By convention 0 is always the simplest choice.

#[derive(Clone)]
pub struct Tape {
    rng: Option<u64>,
    src: Vec<u32>,
    pos: usize,
    pub rec: Vec<u32>,
    /// hard cap on the number of draws in one run (a runaway generator is a harness error)
    pub overdrawn: bool,
}

const MAX_DRAWS: usize = 200_000;

pub fn splitmix(state: &mut u64) -> u64 {
    *state = state.wrapping_add(0x9e37_79b9_7f4a_7c15);
    let mut z = *state;
    z = (z ^ (z >> 30)).wrapping_mul(0xbf58_476d_1ce4_e5b9);
    z = (z ^ (z >> 27)).wrapping_mul(0x94d0_49bb_1331_11eb);
    z ^ (z >> 31)
}

pub fn mix(a: u64, b: u64) -> u64 {
    let mut s = a ^ b.wrapping_mul(0xd6e8_feb8_6659_fd93).rotate_left(17);
    splitmix(&mut s)
}

pub fn hash_str(s: &str) -> u64 {
    let mut h: u64 = 0xcbf2_9ce4_8422_2325;
    for b in s.as_bytes() {
        h ^= *b as u64;
        h = h.wrapping_mul(0x0000_0100_0000_01b3);
    }
    h
}

impl Tape {
    /// Generation mode; `prefix` values are forced for the first draws (used for variants).
    pub fn generate(seed: u64, prefix: Vec<u32>) -> Self {
        Tape { rng: Some(seed), src: prefix, pos: 0, rec: Vec::new(), overdrawn: false }
    }

    pub fn replay(values: Vec<u32>) -> Self {
        Tape { rng: None, src: values, pos: 0, rec: Vec::new(), overdrawn: false }
    }

    /// A value in [0, n). n == 0 or 1 yields 0 without consuming anything.
    pub fn draw(&mut self, n: u32) -> u32 {
        if n <= 1 {
            return 0;
        }
        if self.rec.len() >= MAX_DRAWS {
            self.overdrawn = true;
            return 0;
        }
        let raw = if self.pos < self.src.len() {
            let v = self.src[self.pos];
            self.pos += 1;
            v
        } else if let Some(state) = self.rng.as_mut() {
            (splitmix(state) >> 33) as u32
        } else {
            0
        };
        let v = raw % n;
        self.rec.push(v);
        v
    }
}
