#!/bin/bash
# Sensitivity self-test: every mutant patch must make its check report a VIOLATION.
# Works on a scratch copy of /repo and of the harness under /var/tmp (removed afterwards); /repo is not touched.
#   ./mutants.sh            all of /verif/mutants/*.patch and /verif/seeded/*/patch.diff
#   ./mutants.sh <name>...  only the named ones
set -u
VERIF_DIR="$(cd "$(dirname "$0")" && pwd)"
W=/var/tmp/verif-mutants.$$
trap 'rm -rf "$W"' EXIT
mkdir -p "$W"
rsync -a --exclude target --exclude .git /repo/ "$W/repo/"
rsync -a --exclude target "$VERIF_DIR/sim/" "$W/sim/"
rsync -a "$VERIF_DIR/vendor/" "$W/vendor/"
sed -i "s#path = \"/repo\"#path = \"$W/repo\"#" "$W/sim/Cargo.toml"
sed -i "s#target-dir = \"/verif/target\"#target-dir = \"$W/target\"#" "$W/sim/.cargo/config.toml"
( cd "$W/repo" && git init -q && git add -A >/dev/null 2>&1 && git -c user.email=x@x -c user.name=x commit -qm base )
build() { ( cd "$W/sim" && RUSTFLAGS="--cfg async_graphql_verif" CARGO_TARGET_DIR="$W/target" cargo build --release --offline ) > "$W/build.log" 2>&1; }
mkdir -p "$W/out" && cp "$VERIF_DIR/known_findings.json" "$W/out/"
echo "building baseline harness copy..."
build || { echo "baseline build failed"; tail -20 "$W/build.log"; exit 2; }
list=()
if [ $# -gt 0 ] && [ "${1:-}" != "benign" ]; then
  for n in "$@"; do
    if [ -f "$VERIF_DIR/mutants/$n.patch" ]; then list+=("$VERIF_DIR/mutants/$n.patch"); elif [ -f "$VERIF_DIR/seeded/$n/patch.diff" ]; then list+=("$VERIF_DIR/seeded/$n/patch.diff"); else echo "unknown mutant $n"; fi
  done
elif [ $# -eq 0 ]; then
  for f in "$VERIF_DIR"/mutants/*.patch "$VERIF_DIR"/seeded/*/patch.diff; do [ -f "$f" ] && list+=("$f"); done
fi
fail=0
# negative controls: behaviour-preserving refactors must NOT be flagged
if [ "${1:-}" = "benign" ] || [ $# -eq 0 ]; then
  for patch in "$VERIF_DIR"/benign/*.diff; do
    [ -f "$patch" ] || continue
    name="benign/$(basename "$patch" .diff)"
    checks=$(sed -n 's/^checks: //p' "${patch%.diff}.meta")
    ( cd "$W/repo" && git checkout -q -- . && git apply "$patch" ) || { echo "BENIGN $name: patch does not apply"; fail=1; continue; }
    if ! build; then echo "BENIGN $name: does not compile"; fail=1; continue; fi
    flagged=""
    for id in $checks; do
      out=$(VERIF_DIR="$W/out" "$W/target/release/simrun" check "$id" quick --no-evidence ${BENIGN_RUNS:+--runs $BENIGN_RUNS} 2>&1); code=$?
      if [ $code -ne 0 ]; then flagged="$flagged $id(exit $code $(echo "$out" | grep -o 'class=[^ ]*' | head -1))"; fi
    done
    if [ -n "$flagged" ]; then echo "BENIGN $name: FALSE ALARM by$flagged"; fail=1; else echo "BENIGN $name: quiet on [$checks]"; fi
  done
  if [ "${1:-}" = "benign" ]; then exit $fail; fi
fi
for patch in "${list[@]}"; do
  if [[ "$patch" == */patch.diff ]]; then
    name="seeded/$(basename "$(dirname "$patch")")"
    checks=$(python3 -c "import json,sys; print(' '.join(json.load(open(sys.argv[1]))['detected_by']))" "$(dirname "$patch")/meta.json")
  else
    name="$(basename "$patch" .patch)"
    checks=$(sed -n 's/^check: //p' "${patch%.patch}.meta")
  fi
  ( cd "$W/repo" && git checkout -q -- . && git apply "$patch" ) || { echo "MUTANT $name: patch does not apply"; fail=1; continue; }
  if ! build; then echo "MUTANT $name: does not compile"; grep -E "^error" -A5 "$W/build.log" | head; fail=1; continue; fi
  detected=""
  for id in $checks; do
    out=$(VERIF_DIR="$W/out" "$W/target/release/simrun" check "$id" quick --no-evidence 2>&1); code=$?
    if [ $code -ne 0 ] && [ $code -ne 1 ] && [ $code -ne 2 ]; then
      out=$(VERIF_DIR="$W/out" "$W/target/release/simrun" locate "$id" quick 2>&1); code=$?
    fi
    if [ $code -eq 1 ]; then detected="$detected $id($(echo "$out" | grep -o 'class=[^ ]*' | head -1))"; fi
    if [ $code -eq 2 ]; then echo "MUTANT $name: harness error on $id: $(echo "$out" | tail -2)"; fi
  done
  miss=""
  if [[ "$patch" == */patch.diff ]]; then miss=$(python3 -c "import json,sys; print(json.load(open(sys.argv[1])).get('known_miss',''))" "$(dirname "$patch")/meta.json"); fi
  if [ -n "$detected" ]; then echo "MUTANT $name: detected by$detected"
  elif [ -n "$miss" ]; then echo "MUTANT $name: not detected by [$checks] (recorded limitation)"
  else echo "MUTANT $name: NOT DETECTED by [$checks]"; fail=1; fi
done
exit $fail
