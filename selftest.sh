#!/bin/bash
# Self-tests of the machinery (not property checks).
#   determinism : every check, N seeds, executed in two separate processes with 1 and 16 workers;
#                 per-run event-log hashes, tape lengths and verdicts must be identical.
#   benign      : apply each /verif/benign/*.diff (behaviour-preserving or legal changes) to a scratch copy
#                 of /repo and expect every listed check to stay quiet (exit 0).
#   mutants     : apply each /verif/mutants/*.patch and /verif/seeded/*/patch.diff to a scratch copy of
#                 /repo, build the harness against it and expect the listed check to report a VIOLATION.
set -u
VERIF_DIR="$(cd "$(dirname "$0")" && pwd)"
BIN="$VERIF_DIR/target/release/simrun"
mode="${1:-determinism}"
N="${SELFTEST_RUNS:-2000}"
case "$mode" in
  determinism)
    fail=0
    tmp="$(mktemp -d /var/tmp/verif-det.XXXXXX)"
    for id in $("$BIN" list); do
      VERIF_WORKERS=1  "$BIN" hashes "$id" "$N" > "$tmp/$id.w1"  || { echo "hashes failed for $id"; fail=1; }
      VERIF_WORKERS=16 "$BIN" hashes "$id" "$N" > "$tmp/$id.w16" || { echo "hashes failed for $id"; fail=1; }
      VERIF_WORKERS=5 VERIF_SEED=77 "$BIN" hashes "$id" 500 > "$tmp/$id.s77a"
      VERIF_WORKERS=11 VERIF_SEED=77 "$BIN" hashes "$id" 500 > "$tmp/$id.s77b"
      if cmp -s "$tmp/$id.w1" "$tmp/$id.w16" && cmp -s "$tmp/$id.s77a" "$tmp/$id.s77b"; then
        echo "determinism $id: $N + 500 runs identical across processes and worker counts ($(cut -d' ' -f2 "$tmp/$id.w1" | sort -u | wc -l) distinct event logs)"
      else
        echo "determinism $id: DIVERGENCE"; diff "$tmp/$id.w1" "$tmp/$id.w16" | head -5; fail=1
      fi
      if grep -q "Some(" "$tmp/$id.w1"; then echo "determinism $id: harness errors present"; grep "Some(" "$tmp/$id.w1" | head -3; fail=1; fi
    done
    rm -rf "$tmp"
    exit $fail ;;
  mutants)
    exec "$VERIF_DIR/mutants.sh" "${@:2}" ;;
  benign)
    exec "$VERIF_DIR/mutants.sh" benign ;;
  *) echo "usage: $0 determinism|mutants|benign"; exit 2 ;;
esac
