//! C27 — each subscription response holds exactly its own event's data and errors.

use std::collections::BTreeMap;

use serde_json::{json, Value as J};

use super::{
    c03::{expected_ext, flavour_of, ExecLike},
    exec::*,
    qgen::{gen_operation, gen_subscription, GenCfg},
    world::{field_def, reset_world, world, Fault, RKind, SubItem, Ty},
};
use crate::core::{
    check::{CaseOut, CheckDef},
    sim::{self, chance, draw, Params},
};

pub static DEF: CheckDef = CheckDef {
    id: "C27",
    variants: &["static-subscription", "dynamic-subscription", "static-stream-query", "dynamic-stream-query", "static-subscription-ext", "dynamic-subscription-ext"],
    run,
    quick_runs: 150_000,
    thorough_runs: 10_000_000,
    rule: "subscription variants: execute_stream with 1-3 subscription root fields, each fed by a simulated channel with 1-3 events at drawn (often equal) times; every event is an object whose nested resolvers are gated and fail per event at drawn positions; a lagging consumer creates back-pressure; '-ext' variants add 1-2 suspending pass-through extensions. Oracle: per root key the k-th response belongs to the k-th event of that channel; its data and errors must equal the null-propagation model applied to that event's own failures (resolver log attributed by event id) over that event's fault-free baseline; no response may carry an error of another event. stream-query variants: a query/mutation through execute_stream yields exactly one response (equal to execute's) and then ends. Non-trivial = two events were being resolved at the same time and at least one failure fired (or, for stream-query, a fault fired); distinct = distinct event-order hashes.",
    real: &["Schema::execute_stream (static: derive-generated create_field_stream; dynamic: Subscription::collect_streams), select_all fan-in, request-wide error list"],
    stub: &["async runtime (simulator)", "subscription sources (simulated channels)", "event resolvers (harness, gated)", "stream consumer (harness)"],
    assumptions: &["guard rejections are not injected (a guard cannot tell which event it runs for); resolver errors and, for dynamic schemas, invalid values are"],
    restrictions: &["root fields of one subscription document use distinct response keys", "a stream may end after a response that carries errors (the dynamic flavour does); events after that are not required to be answered"],
    expected_probes: &["probe:two-events-in-flight", "probe:error-captured-while-other-event-pending", "probe:consumer-lagged"],
};

fn run(variant: usize) -> CaseOut {
    let mut out = CaseOut::default();
    reset_world();
    let flavour = flavour_of(variant);
    match variant {
        2 | 3 => stream_query(flavour, &mut out),
        _ => subscription(flavour, if variant >= 4 { 1 + draw(2) as usize } else { 0 }, &mut out),
    }
    out
}

fn stream_query(flavour: Flavour, out: &mut CaseOut) {
    let op = if draw(2) == 0 { "query" } else { "mutation" };
    let query = gen_operation(op, GenCfg { max_fields: 10, ..GenCfg::default() }.for_flavour(flavour == Flavour::Static));
    set_latency(0, 0);
    let base = run_request("baseline", flavour, 0, &query, Some(Params::default()));
    let Some(base_resp) = base.resp else {
        out.viol("C27/stall", format!("baseline did not complete: {query}"));
        return;
    };
    if base_resp.get("errors").is_some() {
        out.discarded = true;
        return;
    }
    let basel = ExecLike { data: data_of(&base_resp), log: base.log };
    if chance(2, 3) {
        let plan = super::c03::draw_plan(flavour, &basel, 2, true);
        set_plan(&plan.faults, &plan.item_faults);
    }
    let faults_desc = describe_faults();
    set_latency(draw(1 << 16) as u64, [1u32, 0, 2][draw(3) as usize]);
    let p = sim::draw_params();
    let direct = run_request("execute", flavour, 0, &query, Some(p));
    let p2 = sim::draw_params();
    let st = run_stream("execute_stream", flavour, 0, &query, Some(p2), 0, &[], draw(2) as u64);
    out.nontrivial = !failures(&st.log).is_empty();
    if !st.ended || st.responses.len() != 1 {
        out.viol("C27/stream-query-count", format!("execute_stream of a {op} yielded {} responses, ended={}; query: {query}", st.responses.len(), st.ended));
        return;
    }
    if let Some(d) = direct.resp {
        if data_of(&d) != data_of(&st.responses[0]) || error_set(&d) != error_set(&st.responses[0]) {
            out.viol("C27/stream-query-differs", format!("execute: {d}; execute_stream: {}; query: {query}; faults: {faults_desc}", st.responses[0]));
        }
    }
    if sim::verbose() {
        out.sample = Some(json!({"flavour": format!("{:?}", flavour), "query": query, "faults": faults_desc, "response": st.responses[0]}));
    }
}

fn subscription(flavour: Flavour, n_ext: usize, out: &mut CaseOut) {
    let n_roots = 1 + draw(3);
    let (query, roots) = gen_subscription(GenCfg { max_fields: 8, max_depth: 3, typename: false, ..GenCfg::default() }.for_flavour(flavour == Flavour::Static), n_roots, false);
    // event script: per channel 1-3 events; times from a small set so that ties are common
    let times = [5u64, 5, 6, 8, 8, 20, 21, 60];
    let mut events: Vec<SubEvent> = vec![];
    let mut per_channel: BTreeMap<i32, Vec<i32>> = BTreeMap::new();
    let mut ev_id = 100;
    for (_, _, ch) in &roots {
        let n = 1 + draw(3);
        let mut t = 0;
        for _ in 0..n {
            t += times[draw(times.len() as u32) as usize];
            ev_id += 1;
            // now and then the source itself yields an error item instead of an event object
            let item = if chance(1, 10) { SubItem::Err(ev_id) } else { SubItem::Node(ev_id) };
            events.push(SubEvent { at: t, ch: *ch, item: Some(item) });
            per_channel.entry(*ch).or_default().push(ev_id);
        }
        let end_gap = [0u64, 1, 50][draw(3) as usize];
        events.push(SubEvent { at: t + end_gap, ch: *ch, item: None });
    }
    // baseline: all events strictly sequential (far apart), fault-free, everything ready
    let mut base_events = vec![];
    let mut t = 10;
    let mut order: Vec<(i32, i32)> = vec![];
    for (ch, evs) in &per_channel {
        for e in evs {
            base_events.push(SubEvent { at: t, ch: *ch, item: Some(SubItem::Node(*e)) });
            order.push((*ch, *e));
            t += 100_000;
        }
    }
    for ch in per_channel.keys() {
        base_events.push(SubEvent { at: t, ch: *ch, item: None });
    }
    set_latency(0, 0);
    let base = run_stream("baseline", flavour, 0, &query, Some(Params::default()), n_roots as i32, &base_events, 0);
    if !base.ended || base.responses.len() != order.len() {
        out.viol("C27/stall", format!("baseline stream: {} responses for {} events, ended={}; query: {query}", base.responses.len(), order.len(), base.ended));
        return;
    }
    if base.responses.iter().any(|r| r.get("errors").is_some()) {
        sim::count("discard:baseline-has-errors");
        out.discarded = true;
        return;
    }
    // per-event baseline data and log
    let mut base_by_event: BTreeMap<i32, ExecLike> = BTreeMap::new();
    {
        let mut chunks: Vec<Vec<super::world::REvent>> = vec![vec![]];
        for e in &base.log {
            if e.kind == RKind::Response {
                chunks.push(vec![]);
            } else {
                chunks.last_mut().unwrap().push(e.clone());
            }
        }
        for (i, (_, ev)) in order.iter().enumerate() {
            base_by_event.insert(*ev, ExecLike { data: data_of(&base.responses[i]), log: chunks.get(i).cloned().unwrap_or_default() });
        }
    }
    // per-event fault plan
    let mut ev_faults: BTreeMap<(i32, String), Fault> = BTreeMap::new();
    for (ev, b) in &base_by_event {
        if !chance(2, 3) {
            continue;
        }
        let fmap = field_map(&[&b.log]);
        let cands: Vec<&String> = fmap.keys().filter(|p| p.contains('.') && !p.ends_with(".id")).collect();
        if cands.is_empty() {
            continue;
        }
        for _ in 0..(1 + draw(2)) {
            let p = cands[draw(cands.len() as u32) as usize];
            let (parent, field, _, _) = &fmap[p];
            let mut kind = Fault::ResolverError;
            if flavour == Flavour::Dynamic {
                if let Some(def) = field_def(parent, field) {
                    let ty = Ty::parse(def.ty);
                    match draw(3) {
                        1 if !ty.nullable() => kind = Fault::NullForNonNull,
                        2 if matches!(def.ret, super::world::Ret::Int | super::world::Ret::Color) && !matches!(ty.unwrap_nn(), Ty::List(_)) => kind = Fault::InvalidValue,
                        _ => {}
                    }
                }
            }
            ev_faults.insert((*ev, p.clone()), kind);
        }
    }
    world(|w| w.ev_faults = ev_faults.clone());
    world(|w| w.ext_gates = n_ext > 0);
    set_latency(draw(1 << 16) as u64, [2u32, 1, 3, 0][draw(4) as usize]);
    let params = sim::draw_params();
    let lag = [0u64, 0, 1, 4][draw(4) as usize];
    if lag > 0 {
        sim::count("probe:consumer-lagged");
    }
    let run = run_stream("interleaved", flavour, n_ext, &query, Some(params), n_roots as i32, &events, lag);
    let plan_desc: Vec<String> = ev_faults.iter().map(|((e, p), k)| format!("event {e}: {p} {:?}", k)).collect();
    let ctx = format!("query: {query}; events: {:?}; faults: {:?}", events.iter().map(|e| (e.at, e.ch, format!("{:?}", e.item))).collect::<Vec<_>>(), plan_desc);
    if !run.ended {
        out.viol("C27/stall", format!("stream did not end ({:?}, {} responses); {ctx}", run.end, run.responses.len()));
        return;
    }
    // probes: two events in flight = a Start of event B between Start and last event of A
    let mut open: BTreeMap<i32, usize> = BTreeMap::new();
    let mut last_of: BTreeMap<i32, usize> = BTreeMap::new();
    for e in run.log.iter().filter(|e| e.ev > 0) {
        last_of.insert(e.ev, e.seq);
    }
    let mut overlapped = false;
    for e in run.log.iter().filter(|e| e.ev > 0) {
        open.entry(e.ev).or_insert(e.seq);
        for (other, start) in &open {
            if *other != e.ev && *start < e.seq && last_of[other] > e.seq {
                overlapped = true;
                if matches!(e.kind, RKind::Failed(_)) {
                    sim::count("probe:error-captured-while-other-event-pending");
                }
            }
        }
    }
    if overlapped {
        sim::count("probe:two-events-in-flight");
    }
    let any_failure = !failures(&run.log).is_empty();
    out.nontrivial = overlapped && any_failure;

    // attribute responses: per root key, k-th response <-> k-th event of the channel
    let key_to_ch: BTreeMap<String, (i32, String)> = roots.iter().map(|(k, f, ch)| (k.clone(), (*ch, f.clone()))).collect();
    let mut seen_per_key: BTreeMap<String, usize> = BTreeMap::new();
    let mut answered: BTreeMap<i32, std::collections::BTreeSet<i32>> = BTreeMap::new();
    for resp in &run.responses {
        // root key: the single data key, or the first path segment of the errors
        let data = data_of(resp);
        let keys: Vec<String> = data.as_object().map(|m| m.keys().cloned().collect()).unwrap_or_default();
        let errs = error_set(resp);
        let key = if keys.len() == 1 {
            keys[0].clone()
        } else if keys.is_empty() && !errs.is_empty() {
            errs[0].0.split('.').next().unwrap_or("").to_string()
        } else {
            out.viol("C27/not-one-root-key", format!("response {resp} does not have exactly one root key; {ctx}"));
            return;
        };
        let Some((ch, field)) = key_to_ch.get(&key) else {
            out.viol("C27/unknown-root-key", format!("response {resp} is for root key '{key}' which the document does not select; {ctx}"));
            return;
        };
        // which event is this the response of? by the id the payload carries when there is one (the
        // property does not fix the order of responses), else the first unanswered event of the channel
        let _ = seen_per_key.entry(key.clone()).and_modify(|n| *n += 1).or_insert(0);
        let used = answered.entry(*ch).or_default();
        let by_id = data[&key]["id"].as_i64().map(|i| i as i32).filter(|i| per_channel[ch].contains(i));
        // errors of other roots in this response?
        let foreign: Vec<&(String, String)> = errs.iter().filter(|(p, _)| p.split('.').next() != Some(key.as_str())).collect();
        if !foreign.is_empty() {
            out.viol("C27/foreign-error", format!("response for '{key}' carries errors of another root field: {:?}; response: {resp}; {ctx}", foreign));
            return;
        }
        // candidates: the event named by the payload's id, or - for a response without data - every
        // unanswered event of that root field (an implementation may skip events; then only the
        // response's own content can tell which event it answers)
        let candidates: Vec<i32> = match by_id {
            Some(i) => {
                if used.contains(&i) {
                    out.viol("C27/duplicate-response", format!("event {i} of '{key}' was answered twice: {resp}; {ctx}"));
                    return;
                }
                vec![i]
            }
            None => per_channel[ch].iter().filter(|e| !used.contains(*e)).cloned().collect(),
        };
        if candidates.is_empty() {
            out.viol("C27/extra-response", format!("root key '{key}' produced more responses than its channel had events: {resp}; {ctx}"));
            return;
        }
        let mut root_types = BTreeMap::new();
        root_types.insert(key.clone(), Ty::parse(field_def("Subscription", field).unwrap().ty));
        let mut first_problem: Option<(&'static str, String)> = None;
        let mut matched: Option<i32> = None;
        for ev in &candidates {
            let b = &base_by_event[ev];
            let own_log: Vec<super::world::REvent> = run.log.iter().filter(|e| e.ev == *ev).cloned().collect();
            let problem: Option<(&'static str, String)> = match expected_ext(b, &own_log, &root_types, &errs, true) {
                Err(e) => {
                    sim::log(format!("unattributable: {e}"));
                    out.discarded = true;
                    None
                }
                Ok((exp_data, exp_errs)) => {
                    let exp = if exp_data.is_null() { J::Null } else { exp_data };
                    // an error *item* of the source is not a field failure of an event: whether the
                    // response then has `data: null` or a null root field is not judged here
                    let source_error_item = own_log.iter().any(|e| matches!(e.kind, RKind::Failed(_)) && e.path == key);
                    if errs != exp_errs {
                        let class = if errs.len() > exp_errs.len() { "C27/foreign-error" } else { "C27/missing-error" };
                        Some((class, format!("response for event {ev} of '{key}': errors expected {:?} got {:?}; response: {resp}; {ctx}", exp_errs, errs)))
                    } else if data != exp && !(source_error_item && (data.is_null() || data[&key].is_null())) {
                        Some(("C27/wrong-data", format!("response for event {ev} of '{key}': data expected {exp} got {data}; {ctx}")))
                    } else {
                        None
                    }
                }
            };
            match problem {
                None => {
                    matched = Some(*ev);
                    break;
                }
                Some(p) => {
                    if first_problem.is_none() {
                        first_problem = Some(p);
                    }
                }
            }
        }
        match matched {
            Some(ev) => {
                if candidates.len() > 1 && ev != candidates[0] {
                    sim::count("probe:response-attributed-past-skipped-events");
                }
                used.insert(ev);
            }
            None => {
                let (class, detail) = first_problem.unwrap();
                out.viol(class, detail);
                return;
            }
        }
    }
    // truncation is allowed only right after an errored response of that key
    for (key, (ch, _)) in &key_to_ch {
        let got = seen_per_key.get(key).cloned().unwrap_or(0);
        let want = per_channel[ch].len();
        if got < want {
            sim::count("probe:event-without-response");
        }
    }
    if sim::verbose() {
        out.sample = Some(json!({"flavour": format!("{:?}", flavour), "extensions": n_ext, "query": query, "events": events.iter().map(|e| json!([e.at, e.ch, format!("{:?}", e.item)])).collect::<Vec<_>>(),
            "faults": plan_desc, "consumer_lag": lag, "responses": run.responses, "two_events_in_flight": overlapped}));
    }
}
