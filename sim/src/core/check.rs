//! Check framework: seeded search over runs, classification against known findings, minimisation,
//! replay files, evidence files.

use std::{
    collections::{BTreeMap, BTreeSet, HashSet},
    panic::{catch_unwind, AssertUnwindSafe},
    sync::{
        atomic::{AtomicU64, Ordering},
        Mutex,
    },
    time::Instant,
};

use serde_json::{json, Value};

use super::{
    minimise::{minimise, Budget},
    sim,
    tape::{hash_str, mix, Tape},
};

#[derive(Clone, Debug)]
pub struct Viol {
    pub class: String,
    pub detail: String,
    /// id of the known-finding defect model this observation matches exactly, if any
    pub finding: Option<&'static str>,
}

#[derive(Default)]
pub struct CaseOut {
    pub viols: Vec<Viol>,
    pub discarded: bool,
    pub nontrivial: bool,
    pub sample: Option<Value>,
}

/// Details are for humans; the full event trace is in the replay file. Keep them bounded so that a
/// change which makes thousands of runs fail cannot exhaust memory.
fn clip(detail: String) -> String {
    const MAX: usize = 6000;
    if detail.len() <= MAX {
        return detail;
    }
    let mut cut = MAX;
    while !detail.is_char_boundary(cut) {
        cut -= 1;
    }
    format!("{}… [{} more bytes; see the replay file's trace]", &detail[..cut], detail.len() - cut)
}

impl CaseOut {
    pub fn viol(&mut self, class: impl Into<String>, detail: impl Into<String>) {
        self.viols.push(Viol { class: class.into(), detail: clip(detail.into()), finding: None });
    }
    pub fn known(&mut self, finding: &'static str, class: impl Into<String>, detail: impl Into<String>) {
        self.viols.push(Viol { class: class.into(), detail: clip(detail.into()), finding: Some(finding) });
    }
}

pub struct CheckDef {
    pub id: &'static str,
    pub variants: &'static [&'static str],
    pub run: fn(variant: usize) -> CaseOut,
    pub quick_runs: u64,
    pub thorough_runs: u64,
    pub rule: &'static str,
    pub real: &'static [&'static str],
    pub stub: &'static [&'static str],
    pub assumptions: &'static [&'static str],
    pub restrictions: &'static [&'static str],
    /// probe counters that a thorough run is expected to hit
    pub expected_probes: &'static [&'static str],
}

thread_local! {
    static LAST_PANIC: std::cell::RefCell<Option<(String, String)>> = const { std::cell::RefCell::new(None) };
    static IN_SIM: std::cell::Cell<bool> = const { std::cell::Cell::new(false) };
}

pub fn install_panic_hook() {
    let default = std::panic::take_hook();
    std::panic::set_hook(Box::new(move |info| {
        if IN_SIM.with(|c| c.get()) {
            let loc = info.location().map(|l| format!("{}:{}", l.file(), l.line())).unwrap_or_default();
            let msg = if let Some(s) = info.payload().downcast_ref::<&str>() {
                s.to_string()
            } else if let Some(s) = info.payload().downcast_ref::<String>() {
                s.clone()
            } else {
                "<non-string panic>".to_string()
            };
            LAST_PANIC.with(|p| {
                let mut p = p.borrow_mut();
                if p.is_none() {
                    *p = Some((loc, msg));
                }
            });
        } else {
            default(info);
        }
    }));
}

pub struct CaseRun {
    pub out: CaseOut,
    pub rec: sim::RunRecord,
    pub harness_error: Option<String>,
}

fn panic_is_harness(loc: &str) -> bool {
    // the harness crate's own files are reported relative ("src/..."); everything else (the
    // library under /repo, its dependencies, std) counts as the system under test
    loc.starts_with("src/") || loc.contains("/verif/sim/")
}

pub fn exec_case(def: &CheckDef, tape: Tape, verbose: bool) -> CaseRun {
    sim::reset(tape, verbose);
    LAST_PANIC.with(|p| *p.borrow_mut() = None);
    IN_SIM.with(|c| c.set(true));
    let r = catch_unwind(AssertUnwindSafe(|| {
        let variant = sim::draw(def.variants.len() as u32) as usize;
        sim::log(format!("variant {}", def.variants[variant]));
        sim::count(&format!("variant:{}", def.variants[variant]));
        (def.run)(variant)
    }));
    IN_SIM.with(|c| c.set(false));
    let rec = sim::finish();
    let mut harness_error = None;
    let out = match r {
        Ok(out) => out,
        Err(_) => {
            let (loc, msg) = LAST_PANIC.with(|p| p.borrow_mut().take()).unwrap_or_default();
            let mut out = CaseOut::default();
            if panic_is_harness(&loc) {
                harness_error = Some(format!("harness panic at {loc}: {msg}"));
            } else {
                out.nontrivial = true;
                out.viol(format!("panic@{loc}"), format!("panic in the system under test at {loc}: {msg}"));
            }
            out
        }
    };
    if rec.overdrawn && harness_error.is_none() {
        harness_error = Some("tape overdrawn (runaway generator)".to_string());
    }
    CaseRun { out, rec, harness_error }
}

#[derive(Default)]
struct Agg {
    evaluations: u64,
    discarded: u64,
    nontrivial: u64,
    distinct: HashSet<u64>,
    stats: BTreeMap<String, u64>,
    sim_time: u64,
    execs: u64,
    known: BTreeMap<String, (u64, u64)>, // finding -> (count, first index)
    viols: BTreeMap<u64, Vec<Viol>>,     // run index -> violations (lowest indices only)
    viol_runs: u64,
    nontrivial_idx: BTreeSet<u64>,
    harness_errors: BTreeMap<u64, String>,
    samples: BTreeMap<u64, Value>,
    log_hash_xor: u64,
    max_inflight: usize,
}

impl Agg {
    fn merge(&mut self, o: Agg) {
        self.evaluations += o.evaluations;
        self.discarded += o.discarded;
        self.nontrivial += o.nontrivial;
        self.distinct.extend(o.distinct);
        for (k, v) in o.stats {
            *self.stats.entry(k).or_insert(0) += v;
        }
        self.sim_time += o.sim_time;
        self.execs += o.execs;
        for (k, (c, i)) in o.known {
            let e = self.known.entry(k).or_insert((0, u64::MAX));
            e.0 += c;
            e.1 = e.1.min(i);
        }
        self.viols.extend(o.viols);
        self.viol_runs += o.viol_runs;
        self.nontrivial_idx.extend(o.nontrivial_idx);
        while self.nontrivial_idx.len() > 3 {
            let last = *self.nontrivial_idx.iter().next_back().unwrap();
            self.nontrivial_idx.remove(&last);
        }
        self.harness_errors.extend(o.harness_errors);
        self.samples.extend(o.samples);
        self.log_hash_xor ^= o.log_hash_xor;
        self.max_inflight = self.max_inflight.max(o.max_inflight);
    }
}

pub fn case_seed(seed: u64, id: &str, idx: u64) -> u64 {
    mix(mix(seed, hash_str(id)), idx)
}

#[derive(Clone)]
pub struct Finding {
    pub id: String,
    pub property: String,
    pub status: String,
    pub what: String,
}

pub fn load_findings(path: &str) -> Result<Vec<Finding>, String> {
    let text = match std::fs::read_to_string(path) {
        Ok(t) => t,
        Err(_) => return Ok(vec![]),
    };
    let v: Value = serde_json::from_str(&text).map_err(|e| format!("{path}: {e}"))?;
    let mut out = vec![];
    for f in v["findings"].as_array().cloned().unwrap_or_default() {
        out.push(Finding {
            id: f["id"].as_str().unwrap_or("").to_string(),
            property: f["property"].as_str().unwrap_or("").to_string(),
            status: f["status"].as_str().unwrap_or("").to_string(),
            what: f["what"].as_str().unwrap_or("").to_string(),
        });
    }
    Ok(out)
}

pub struct RunOpts {
    pub tier: String,
    pub seed: u64,
    pub workers: usize,
    pub runs_override: Option<u64>,
    pub verif_dir: String,
    pub write_evidence: bool,
}

fn classes_of(viols: &[Viol], open: &BTreeSet<String>) -> Vec<String> {
    viols
        .iter()
        .filter(|v| !v.finding.map(|f| open.contains(f)).unwrap_or(false))
        .map(|v| v.class.clone())
        .collect()
}

/// Returns the process exit code.
pub fn run_check(def: &'static CheckDef, opts: &RunOpts) -> i32 {
    let t0 = Instant::now();
    let findings = match load_findings(&format!("{}/known_findings.json", opts.verif_dir)) {
        Ok(f) => f,
        Err(e) => {
            eprintln!("harness error: {e}");
            return 2;
        }
    };
    let open: BTreeSet<String> = findings.iter().filter(|f| f.property == def.id && f.status == "open").map(|f| f.id.clone()).collect();
    let total = opts.runs_override.unwrap_or(if opts.tier == "thorough" { def.thorough_runs } else { def.quick_runs });
    let next = AtomicU64::new(0);
    let agg = Mutex::new(Agg::default());
    let nsamples = 3u64;
    std::thread::scope(|sc| {
        for _ in 0..opts.workers.max(1) {
            sc.spawn(|| {
                let mut local = Agg::default();
                loop {
                    let start = next.fetch_add(32, Ordering::Relaxed);
                    if start >= total {
                        break;
                    }
                    for idx in start..(start + 32).min(total) {
                        let tape = Tape::generate(case_seed(opts.seed, def.id, idx), vec![]);
                        let verbose = false;
                        let cr = exec_case(def, tape, verbose);
                        local.evaluations += 1;
                        local.log_hash_xor ^= mix(cr.rec.log_hash, idx);
                        if let Some(e) = cr.harness_error {
                            local.harness_errors.insert(idx, e);
                            continue;
                        }
                        if cr.out.discarded {
                            local.discarded += 1;
                        }
                        if cr.out.nontrivial {
                            local.nontrivial += 1;
                            local.distinct.insert(cr.rec.order_hash);
                            if local.nontrivial_idx.len() < 3 || idx < *local.nontrivial_idx.iter().next_back().unwrap() {
                                local.nontrivial_idx.insert(idx);
                                if local.nontrivial_idx.len() > 3 {
                                    let last = *local.nontrivial_idx.iter().next_back().unwrap();
                                    local.nontrivial_idx.remove(&last);
                                }
                            }
                        }
                        for (k, v) in &cr.rec.stats {
                            *local.stats.entry(k.clone()).or_insert(0) += v;
                        }
                        local.sim_time += cr.rec.sim_time;
                        local.execs += cr.rec.execs;
                        local.max_inflight = local.max_inflight.max(cr.rec.max_inflight);
                        let mut real = vec![];
                        for v in &cr.out.viols {
                            match v.finding {
                                Some(f) if open.contains(f) => {
                                    let e = local.known.entry(f.to_string()).or_insert((0, u64::MAX));
                                    e.0 += 1;
                                    e.1 = e.1.min(idx);
                                }
                                _ => real.push(v.clone()),
                            }
                        }
                        if !real.is_empty() {
                            local.viol_runs += 1;
                            // keep the details of the lowest run indices only
                            local.viols.insert(idx, real);
                            while local.viols.len() > 40 {
                                let last = *local.viols.keys().next_back().unwrap();
                                local.viols.remove(&last);
                            }
                        }
                        if false {
                            let mut s = cr.out.sample.clone().unwrap_or(Value::Null);
                            if let Value::Object(m) = &mut s {
                                m.insert("run_index".into(), json!(idx));
                                m.insert("tape_len".into(), json!(cr.rec.tape.len()));
                                let n = cr.rec.lines.len();
                                m.insert("trace_prefix".into(), json!(cr.rec.lines.iter().take(40).cloned().collect::<Vec<_>>()));
                                m.insert("trace_lines".into(), json!(n));
                            }
                            local.samples.insert(idx, s);
                        }
                    }
                }
                agg.lock().unwrap().merge(local);
            });
        }
    });
    let mut agg = agg.into_inner().unwrap();
    let search_wall = t0.elapsed().as_secs_f64();
    // samples: the first non-trivial runs (or simply the first runs), re-executed with the trace on
    {
        let mut idxs: Vec<u64> = agg.nontrivial_idx.iter().cloned().collect();
        let mut i = 0;
        while (idxs.len() as u64) < nsamples.min(total) {
            if !idxs.contains(&i) {
                idxs.push(i);
            }
            i += 1;
        }
        for idx in idxs {
            let cr = exec_case(def, Tape::generate(case_seed(opts.seed, def.id, idx), vec![]), true);
            let mut s = cr.out.sample.clone().unwrap_or(json!({}));
            if let Value::Object(m) = &mut s {
                m.insert("run_index".into(), json!(idx));
                m.insert("non_trivial".into(), json!(cr.out.nontrivial));
                m.insert("tape_len".into(), json!(cr.rec.tape.len()));
                let n = cr.rec.lines.len();
                m.insert("trace_prefix".into(), json!(cr.rec.lines.iter().take(60).cloned().collect::<Vec<_>>()));
                m.insert("trace_lines".into(), json!(n));
            }
            agg.samples.insert(idx, s);
        }
    }

    if let Some((idx, e)) = agg.harness_errors.iter().next() {
        eprintln!("harness error in run {idx} (seed {}): {e}", opts.seed);
        return 2;
    }

    // ---- violations: minimise, write replay files, verify replay
    let mut exit = 0;
    let mut reported: BTreeSet<String> = BTreeSet::new();
    let mut violation_count: u64 = 0;
    violation_count += agg.viol_runs;
    for (idx, viols) in agg.viols.iter() {
        let class = viols[0].class.clone();
        if reported.contains(&class) || reported.len() >= 3 {
            continue;
        }
        reported.insert(class.clone());
        // regenerate this run's tape
        let cr = exec_case(def, Tape::generate(case_seed(opts.seed, def.id, *idx), vec![]), false);
        let orig_tape = cr.rec.tape.clone();
        let mut budget = Budget::new(3000, 60);
        let cls = class.clone();
        let open2 = open.clone();
        let mut test = |cand: &[u32]| -> Option<Vec<u32>> {
            let cr = exec_case(def, Tape::replay(cand.to_vec()), false);
            if cr.harness_error.is_some() {
                return None;
            }
            if classes_of(&cr.out.viols, &open2).contains(&cls) {
                Some(cr.rec.tape)
            } else {
                None
            }
        };
        let min_tape = minimise(orig_tape.clone(), &mut budget, &mut test);
        let fin = exec_case(def, Tape::replay(min_tape.clone()), true);
        let still = classes_of(&fin.out.viols, &open).contains(&class);
        let (tape_out, fin) = if still { (min_tape, fin) } else { (orig_tape.clone(), exec_case(def, Tape::replay(orig_tape.clone()), true)) };
        let detail = fin.out.viols.iter().find(|v| v.class == class).map(|v| v.detail.clone()).unwrap_or_default();
        let dir = format!("{}/replays/{}", opts.verif_dir, def.id);
        let _ = std::fs::create_dir_all(&dir);
        let build = if cfg!(feature = "spool") { "default" } else { "nospool" };
        let path = format!("{dir}/{}-{}-{:08x}{}.json", opts.seed, idx, (fin.rec.log_hash ^ hash_str(&class)) as u32, if cfg!(feature = "spool") { "" } else { "-nospool" });
        let doc = json!({
            "property": def.id,
            "build": build,
            "class": class,
            "seed": opts.seed,
            "run_index": idx,
            "original_tape_len": orig_tape.len(),
            "minimise_runs": budget.runs,
            "tape": tape_out,
            "log_hash": format!("{:016x}", fin.rec.log_hash),
            "detail": detail,
            "sample": fin.out.sample,
            "trace": fin.rec.lines,
            "faults_fired": fin.rec.stats.iter().filter(|(k, _)| k.starts_with("fault:")).collect::<BTreeMap<_, _>>(),
        });
        if let Err(e) = std::fs::write(&path, serde_json::to_string_pretty(&doc).unwrap()) {
            eprintln!("harness error: cannot write {path}: {e}");
            return 2;
        }
        // replay in a fresh process: must reproduce the class, and the same event log
        let fresh = || {
            std::process::Command::new(std::env::current_exe().unwrap())
                .args(["replay", &path, "--quiet"])
                .env("VERIF_DIR", &opts.verif_dir)
                .stdout(std::process::Stdio::null())
                .stderr(std::process::Stdio::null())
                .status()
                .ok()
                .and_then(|s| s.code())
        };
        match fresh() {
            Some(1) => {}
            Some(2) | None => {
                eprintln!("harness error: replaying {path} in a fresh process failed");
                return 2;
            }
            first => {
                // The violation was observed in this process (search run and minimised re-run). If a
                // fresh process sees another event log or no violation, the code under test is not a
                // function of the tape on this input (typically: it iterates a std RandomState map).
                let mut ok = if first == Some(3) { 1 } else { 0 };
                for _ in 0..7 {
                    if matches!(fresh(), Some(1) | Some(3)) {
                        ok += 1;
                    }
                }
                println!("note: {path} reproduces {class} in {ok} of 8 fresh processes: the code under test behaves nondeterministically on this input (per-process hash order?); the violation was observed twice in this process");
            }
        }
        println!("violation class={class} run={idx} tape {}->{} entries: {}", orig_tape.len(), doc["tape"].as_array().unwrap().len(), first_line(&detail));
        println!("VIOLATION property={} replay={}", def.id, path);
        exit = 1;
    }

    // ---- known findings
    for f in findings.iter().filter(|f| f.property == def.id && f.status == "open") {
        let (n, first) = agg.known.get(&f.id).cloned().unwrap_or((0, 0));
        println!("KNOWN-FINDING: property={} {} — {} (matched in {} runs of this search{})", def.id, f.id, f.what, n, if n > 0 { format!(", first run {first}") } else { String::new() });
    }

    // ---- evidence
    let wall = t0.elapsed().as_secs_f64();
    let faults: BTreeMap<&String, &u64> = agg.stats.iter().filter(|(k, _)| k.starts_with("fault:")).collect();
    let probes: BTreeMap<&String, &u64> = agg.stats.iter().filter(|(k, _)| k.starts_with("probe:")).collect();
    let policies: BTreeMap<&String, &u64> = agg.stats.iter().filter(|(k, _)| k.starts_with("policy:") || k.starts_with("sched:")).collect();
    let variants: BTreeMap<&String, &u64> = agg.stats.iter().filter(|(k, _)| k.starts_with("variant:")).collect();
    let other: BTreeMap<&String, &u64> = agg
        .stats
        .iter()
        .filter(|(k, _)| !(k.starts_with("fault:") || k.starts_with("probe:") || k.starts_with("policy:") || k.starts_with("sched:") || k.starts_with("variant:")))
        .collect();
    let mut warnings = vec![];
    if opts.tier == "thorough" {
        for p in def.expected_probes {
            if agg.stats.get(*p).cloned().unwrap_or(0) == 0 {
                warnings.push(format!("probe {p} was never hit"));
                println!("warning: probe {p} was never hit in this run");
            }
        }
    }
    let ev = json!({
        "property_id": def.id,
        "tier": opts.tier,
        "seed": opts.seed,
        "level": "exploration",
        "wall_s": wall,
        "violations": violation_count,
        "assumptions": def.assumptions,
        "coverage": {
            "evaluations": agg.evaluations,
            "distinct_nontrivial": agg.distinct.len(),
            "rule": def.rule,
            "samples": agg.samples.values().collect::<Vec<_>>(),
            "nontrivial_runs": agg.nontrivial,
            "discarded_unattributable": agg.discarded,
            "simulated_executions": agg.execs,
            "runs_per_hour": if search_wall > 0.0 { (agg.evaluations as f64 / search_wall * 3600.0) as u64 } else { 0 },
            "seeds": format!("case seed = mix(VERIF_SEED={}, {}, run index 0..{})", opts.seed, def.id, total),
            "workers": opts.workers,
            "simulated_time_us_total": agg.sim_time,
            "faults_fired": faults,
            "probes": probes,
            "scheduling": policies,
            "variants": variants,
            "other_counters": other,
            "max_tasks_or_items_in_flight": agg.max_inflight,
            "components": {"real": def.real, "stub": def.stub},
            "known_findings_seen": agg.known.iter().map(|(k, v)| (k.clone(), v.0)).collect::<BTreeMap<_, _>>(),
            "restrictions": def.restrictions,
            "warnings": warnings,
            "report_hash": format!("{:016x}", agg.log_hash_xor),
        }
    });
    if opts.write_evidence {
        let dir = format!("{}/evidence", opts.verif_dir);
        let _ = std::fs::create_dir_all(&dir);
        let path = format!("{dir}/{}.json", def.id);
        if let Err(e) = std::fs::write(&path, serde_json::to_string_pretty(&ev).unwrap()) {
            eprintln!("harness error: cannot write {path}: {e}");
            return 2;
        }
    }
    println!(
        "{} {}: {} runs ({} non-trivial, {} distinct interleavings, {} discarded), {} simulated executions, {:.1}s, report hash {:016x}",
        def.id,
        opts.tier,
        agg.evaluations,
        agg.nontrivial,
        agg.distinct.len(),
        agg.discarded,
        agg.execs,
        wall,
        agg.log_hash_xor
    );
    exit
}

fn first_line(s: &str) -> String {
    let l = s.lines().next().unwrap_or("");
    if l.len() > 300 {
        format!("{}…", &l[..l.char_indices().take_while(|(i, _)| *i < 300).last().map(|(i, _)| i).unwrap_or(0)])
    } else {
        l.to_string()
    }
}

/// Replay a file; exit 1 if the same class (and log hash) is reproduced, 0 if it no longer fails, 2 on mismatch.
pub fn replay_file(defs: &[&'static CheckDef], path: &str, verif_dir: &str, quiet: bool) -> i32 {
    let text = match std::fs::read_to_string(path) {
        Ok(t) => t,
        Err(e) => {
            eprintln!("harness error: {path}: {e}");
            return 2;
        }
    };
    let doc: Value = match serde_json::from_str(&text) {
        Ok(v) => v,
        Err(e) => {
            eprintln!("harness error: {path}: {e}");
            return 2;
        }
    };
    let id = doc["property"].as_str().unwrap_or("");
    let Some(def) = defs.iter().find(|d| d.id == id) else {
        eprintln!("harness error: unknown property {id}");
        return 2;
    };
    let findings = load_findings(&format!("{verif_dir}/known_findings.json")).unwrap_or_default();
    let open: BTreeSet<String> = findings.iter().filter(|f| f.property == def.id && f.status == "open").map(|f| f.id.clone()).collect();
    let class = doc["class"].as_str().unwrap_or("").to_string();
    if doc["generate"].as_bool() == Some(true) {
        // a run that kills the process: re-run it in a child and look at how the child ends
        let seed = doc["seed"].as_u64().unwrap_or(1);
        let idx = doc["run_index"].as_u64().unwrap_or(0);
        return match range_dies(def.id, seed, idx, idx + 1) {
            Some(how) => {
                println!("reproduced: run {idx} (seed {seed}) kills the process ({how})");
                println!("VIOLATION property={} replay={}", def.id, path);
                1
            }
            None => {
                println!("replay of {path}: run {idx} no longer kills the process");
                0
            }
        };
    }
    let tape: Vec<u32> = doc["tape"].as_array().map(|a| a.iter().map(|v| v.as_u64().unwrap_or(0) as u32).collect()).unwrap_or_default();
    let cr = exec_case(def, Tape::replay(tape), true);
    if let Some(e) = cr.harness_error {
        eprintln!("harness error: {e}");
        return 2;
    }
    if !quiet {
        for l in &cr.rec.lines {
            println!("{l}");
        }
        if let Some(s) = &cr.out.sample {
            println!("case: {}", serde_json::to_string_pretty(s).unwrap());
        }
    }
    // when replaying a witness of a known finding, findings count as violations of their class
    let ignore_known = doc["witness_of"].is_string();
    let classes: Vec<String> = if ignore_known { cr.out.viols.iter().map(|v| v.class.clone()).collect() } else { classes_of(&cr.out.viols, &open) };
    if classes.contains(&class) {
        let h = format!("{:016x}", cr.rec.log_hash);
        if doc["log_hash"].as_str() == Some(h.as_str()) {
            if !quiet {
                for v in cr.out.viols.iter().filter(|v| v.class == class) {
                    println!("reproduced: {}: {}", v.class, v.detail);
                }
            }
            println!("VIOLATION property={} replay={}", def.id, path);
            1
        } else {
            eprintln!("replay reproduced class {class} but with a different event log ({h} vs {})", doc["log_hash"]);
            if quiet {
                // internal verification of a fresh replay file: the event log must be identical
                return 3;
            }
            println!("VIOLATION property={} replay={}", def.id, path);
            1
        }
    } else {
        println!("replay of {path}: class {class} not reproduced (observed: {:?})", cr.out.viols.iter().map(|v| &v.class).collect::<Vec<_>>());
        0
    }
}

/// Does running the indices [a, b) kill a fresh process?
fn range_dies(id: &str, seed: u64, a: u64, b: u64) -> Option<String> {
    let st = std::process::Command::new(std::env::current_exe().unwrap())
        .args(["range", id, &a.to_string(), &b.to_string()])
        .env("VERIF_SEED", seed.to_string())
        .env("VERIF_WORKERS", "1")
        .stdout(std::process::Stdio::null())
        .stderr(std::process::Stdio::null())
        .status()
        .ok()?;
    if st.success() {
        None
    } else {
        use std::os::unix::process::ExitStatusExt;
        Some(match st.signal() {
            Some(sig) => format!("signal {sig}"),
            None => format!("exit status {:?}", st.code()),
        })
    }
}

/// The search process died (stack overflow, abort, out of memory). Find the first run index that kills
/// a fresh single-threaded process and report it as a violation whose replay file regenerates the tape
/// from (seed, run index). Exit 1 = found and reported, 2 = nothing reproduces.
pub fn locate_abort(def: &'static CheckDef, seed: u64, total: u64, verif_dir: &str) -> i32 {
    let chunk = 2048u64;
    let mut start = 0u64;
    while start < total {
        let end = (start + chunk).min(total);
        if let Some(how) = range_dies(def.id, seed, start, end) {
            // bisect
            let (mut lo, mut hi) = (start, end);
            while hi - lo > 1 {
                let mid = (lo + hi) / 2;
                if range_dies(def.id, seed, lo, mid).is_some() {
                    hi = mid;
                } else {
                    lo = mid;
                }
            }
            if range_dies(def.id, seed, lo, lo + 1).is_none() {
                eprintln!("harness error: runs {start}..{end} kill the process ({how}) but no single run does");
                return 2;
            }
            let dir = format!("{verif_dir}/replays/{}", def.id);
            let _ = std::fs::create_dir_all(&dir);
            let path = format!("{dir}/{seed}-{lo}-abort.json");
            let doc = json!({
                "property": def.id,
                "class": "process-abort",
                "seed": seed,
                "run_index": lo,
                "generate": true,
                "tape": [],
                "detail": format!("run {lo} of the search (seed {seed}) kills the process ({how}): stack overflow, abort or out of memory inside the system under test; the tape is regenerated from (seed, run index) on replay"),
            });
            if std::fs::write(&path, serde_json::to_string_pretty(&doc).unwrap()).is_err() {
                return 2;
            }
            println!("violation class=process-abort run={lo}: the run kills the process ({how})");
            println!("VIOLATION property={} replay={}", def.id, path);
            return 1;
        }
        start = end;
    }
    eprintln!("harness error: the search process died but no run reproduces it in a single-threaded process (out of memory under load?)");
    2
}
