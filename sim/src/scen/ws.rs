//! C25 — WebSocket sessions follow graphql-transport-ws / subscriptions-transport-ws.
//! The real `WebSocket` state machine runs over a simulated client inbox, simulated subscription
//! sources, gated callbacks and a simulated keep-alive timer; a protocol monitor checks the
//! recorded history.

use std::{
    cell::RefCell,
    collections::{BTreeMap, BTreeSet},
    pin::Pin,
    task::{Context, Poll},
    time::Duration,
};

use async_graphql::{
    http::{ClientMessage, WebSocket, WebSocketProtocols as Protocols, WsMessage},
    Data,
};
use futures_util::{Stream, StreamExt};
use serde_json::{json, Value as J};

use super::{
    exec::set_latency,
    world::{self, reset_world, world, RKind, SubItem},
};
use crate::core::{
    check::{CaseOut, CheckDef},
    sim::{self, chance, draw, ChanRx, SimTimer},
};

pub static DEF: CheckDef = CheckDef {
    id: "C25",
    variants: &["graphql-transport-ws", "subscriptions-transport-ws", "graphql-transport-ws/message-stream", "subscriptions-transport-ws/faults", "graphql-transport-ws/faults", "graphql-transport-ws/dynamic-schema", "subscriptions-transport-ws/dynamic-schema"],
    run,
    quick_runs: 300_000,
    thorough_runs: 20_000_000,
    rule: "case = real WebSocket state machine (both constructors, both protocols) over the real static harness schema as Executor; client script of 1-10 messages at drawn times (init, duplicate init, subscribe/start with fresh, live and completed ids from a 3-id pool, queries over the socket, complete/stop of live and unknown ids, ping, pong, terminate (legacy), invalid JSON, unknown type, disconnect) interleaved by the simulator with subscription events, source ends, gated on_connection_init/on_ping completions (which may fail), keep-alive expiries and a consumer that may lag so that several inputs are queued before one poll. Oracle: protocol monitor over the merged history (message consumption points, outputs, resolver starts): nothing after close/end; at most one ack and only after an init; no next/data/complete and no resolver start before the ack; every next/data id live, payload = an event delivered to that operation, once, in order; complete at most once per subscription; graphql-transport-ws close codes 4429/4401/4409/4400 right after the offending message; bounded liveness at quiescence. Non-trivial = at least one operation was live while another input was processed; distinct = distinct event-order hashes.",
    real: &["async_graphql::http::WebSocket::poll_next (both constructors)", "ClientMessage decoding", "Schema::execute_stream and dynamic::Schema::execute_stream as Executor", "hook H1 (fixed hasher for the operation map, cfg async_graphql_verif)"],
    stub: &["client (scripted inbox)", "subscription sources (simulated channels)", "on_connection_init / on_ping callbacks (gated, may fail)", "keep-alive Timer (simulated clock)", "consumer (web-framework integration role)"],
    assumptions: &["messages reach the server in the order sent (a WebSocket is an ordered stream)", "the web-framework integrations only forward WsMessage items; they are not run"],
    restrictions: &["connection_terminate is only sent under the legacy protocol", "event loss after stop/replace is counted, not judged (the property promises no delivery)"],
    expected_probes: &["probe:operation-live-while-input-processed", "probe:several-inputs-queued-before-poll", "probe:stop-with-event-queued", "probe:id-reused-while-live", "probe:id-reused-after-complete", "probe:keepalive-fired"],
};

#[derive(Clone, Debug, PartialEq)]
enum OpKind {
    Sub(i32),
    Query,
    BadQuery,
}

#[derive(Clone, Debug, PartialEq)]
enum Act {
    Init { reject: bool },
    Subscribe { id: String, kind: OpKind },
    Complete { id: String },
    Ping { fail: bool },
    Pong,
    Terminate,
    InvalidJson,
    UnknownType,
}

#[derive(Clone, Debug)]
enum WsEv {
    Delivered(usize),
    Consumed(usize),
    ConsumedEnd,
    Out(J),
    OutClose(u16),
    OutEnd,
    ChanDeliver(i32, i32),
    ChanEnd(i32),
}

thread_local! {
    static WSTIME: RefCell<Vec<u64>> = const { RefCell::new(Vec::new()) };
    static WSLOG: RefCell<Vec<WsEv>> = const { RefCell::new(Vec::new()) };
    static ACK_AT: RefCell<Option<usize>> = const { RefCell::new(None) };
}

fn wslog(e: WsEv) {
    sim::log_order(format!("ws {:?}", e));
    WSLOG.with(|l| l.borrow_mut().push(e));
    WSTIME.with(|l| l.borrow_mut().push(sim::now()));
}

struct Inbox {
    rx: ChanRx<(usize, Vec<u8>)>,
}

impl Stream for Inbox {
    type Item = Vec<u8>;
    fn poll_next(mut self: Pin<&mut Self>, cx: &mut Context<'_>) -> Poll<Option<Vec<u8>>> {
        match Pin::new(&mut self.rx).poll_next(cx) {
            Poll::Ready(Some((k, bytes))) => {
                wslog(WsEv::Consumed(k));
                Poll::Ready(Some(bytes))
            }
            Poll::Ready(None) => {
                wslog(WsEv::ConsumedEnd);
                Poll::Ready(None)
            }
            Poll::Pending => Poll::Pending,
        }
    }
}

struct MsgInbox {
    rx: ChanRx<(usize, Vec<u8>)>,
}

impl Stream for MsgInbox {
    type Item = serde_json::Result<ClientMessage>;
    fn poll_next(mut self: Pin<&mut Self>, cx: &mut Context<'_>) -> Poll<Option<Self::Item>> {
        match Pin::new(&mut self.rx).poll_next(cx) {
            Poll::Ready(Some((k, bytes))) => {
                wslog(WsEv::Consumed(k));
                Poll::Ready(Some(ClientMessage::from_bytes(bytes)))
            }
            Poll::Ready(None) => {
                wslog(WsEv::ConsumedEnd);
                Poll::Ready(None)
            }
            Poll::Pending => Poll::Pending,
        }
    }
}

fn encode(act: &Act, legacy: bool) -> Vec<u8> {
    let v = match act {
        Act::Init { reject } => json!({"type": "connection_init", "payload": {"reject": reject}}),
        Act::Subscribe { id, kind } => {
            let q = match kind {
                OpKind::Sub(ch) => format!("subscription {{ events(ch: {ch}) {{ id }} }}"),
                OpKind::Query => "{ id req }".to_string(),
                OpKind::BadQuery => "{ nope }".to_string(),
            };
            json!({"type": if legacy { "start" } else { "subscribe" }, "id": id, "payload": {"query": q}})
        }
        Act::Complete { id } => json!({"type": if legacy { "stop" } else { "complete" }, "id": id}),
        Act::Ping { fail } => json!({"type": "ping", "payload": {"fail": fail}}),
        Act::Pong => json!({"type": "pong"}),
        Act::Terminate => json!({"type": "connection_terminate"}),
        Act::InvalidJson => return b"{\"type\": \"subscribe\", ".to_vec(),
        Act::UnknownType => json!({"type": "bogus", "id": "a"}),
    };
    serde_json::to_vec(&v).unwrap()
}

struct Script {
    acts: Vec<(u64, Act)>,
    disconnect_at: Option<u64>,
    chan_events: Vec<(u64, i32, Option<i32>)>,
    n_channels: i32,
}

fn gen_script(legacy: bool, faults: bool) -> Script {
    let ids = ["a", "b", "c"];
    let n = 1 + draw(10);
    let gaps = [0u64, 0, 1, 2, 5, 30];
    let mut t = 0u64;
    let mut acts = vec![];
    let mut n_channels = 0;
    let mut chan_events = vec![];
    // most scripts start with an init; some do not (subscribe-before-ack)
    let mut did_init = false;
    for i in 0..n {
        t += gaps[draw(gaps.len() as u32) as usize];
        let w = if i == 0 && !chance(1, 8) { 0 } else { draw(if faults { 20 } else { 14 }) };
        let act = match w {
            0 if !did_init || chance(1, 6) => {
                did_init = true;
                Act::Init { reject: faults && chance(1, 8) }
            }
            0..=5 => {
                let id = ids[draw(3) as usize].to_string();
                let kind = match draw(6) {
                    0 => OpKind::Query,
                    1 if faults => OpKind::BadQuery,
                    _ => {
                        let ch = n_channels;
                        n_channels += 1;
                        // events for this operation
                        let k = draw(4);
                        let mut et = t;
                        for j in 0..k {
                            et += [0u64, 1, 3, 10, 40][draw(5) as usize];
                            chan_events.push((et, ch, Some(ch * 100 + j as i32 + 1)));
                        }
                        if chance(3, 4) {
                            et += [0u64, 1, 10, 60][draw(4) as usize];
                            chan_events.push((et, ch, None));
                        }
                        OpKind::Sub(ch)
                    }
                };
                Act::Subscribe { id, kind }
            }
            6..=8 => Act::Complete { id: ids[draw(3) as usize].to_string() },
            9 | 10 => Act::Ping { fail: faults && chance(1, 6) },
            11 => Act::Pong,
            12 | 13 => {
                if legacy && chance(1, 2) { Act::Terminate } else { Act::Pong }
            }
            14 | 15 => Act::InvalidJson,
            16 => Act::UnknownType,
            17 => Act::Init { reject: false },
            _ => Act::Ping { fail: false },
        };
        acts.push((t, act));
    }
    let disconnect_at = if chance(3, 4) { Some(t + [0u64, 1, 50, 500][draw(4) as usize]) } else { None };
    Script { acts, disconnect_at, chan_events, n_channels }
}

fn run(variant: usize) -> CaseOut {
    let mut out = CaseOut::default();
    reset_world();
    WSLOG.with(|l| l.borrow_mut().clear());
    WSTIME.with(|l| l.borrow_mut().clear());
    ACK_AT.with(|a| *a.borrow_mut() = None);
    let legacy = variant == 1 || variant == 3 || variant == 6;
    let faults = variant == 3 || variant == 4;
    let dynamic_executor = variant >= 5;
    let message_stream = variant == 2;
    let protocol = if legacy { Protocols::SubscriptionsTransportWS } else { Protocols::GraphQLWS };
    let script = gen_script(legacy, faults);
    let keepalive: Option<u64> = match draw(4) {
        0 => Some([30u64, 200, 5000][draw(3) as usize]),
        _ => None,
    };
    let lag: u64 = [0u64, 0, 1, 7][draw(4) as usize];
    set_latency(draw(1 << 16) as u64, [1u32, 0, 2][draw(3) as usize]);
    world::begin_world_exec();
    sim::begin_exec("websocket");
    let params = sim::draw_params();
    let init_lat = [0u64, 1, 4, 40][draw(4) as usize];
    let ping_lat = [0u64, 1, 4][draw(3) as usize];

    // channels
    let mut chan_tx = BTreeMap::new();
    for ch in 0..script.n_channels {
        let (tx, rx) = sim::channel::<SubItem>();
        world(|w| w.channels.insert(ch, rx));
        chan_tx.insert(ch, tx);
    }
    for (at, ch, item) in &script.chan_events {
        let tx = chan_tx[ch].clone();
        let (ch, item) = (*ch, *item);
        sim::at(*at, move || match item {
            Some(id) => {
                wslog(WsEv::ChanDeliver(ch, id));
                tx.push(SubItem::Node(id));
            }
            None => {
                wslog(WsEv::ChanEnd(ch));
                tx.end();
            }
        });
    }
    // inbox
    let (in_tx, in_rx) = sim::channel::<(usize, Vec<u8>)>();
    for (k, (at, act)) in script.acts.iter().enumerate() {
        let tx = in_tx.clone();
        let bytes = encode(act, legacy);
        sim::at(*at, move || {
            wslog(WsEv::Delivered(k));
            tx.push((k, bytes));
        });
    }
    if let Some(at) = script.disconnect_at {
        let tx = in_tx.clone();
        sim::at(at, move || {
            sim::log_order("ws client disconnects".into());
            tx.end();
        });
    }
    let on_init = move |payload: serde_json::Value| async move {
        sim::gate(init_lat).await;
        if payload.get("reject").and_then(|v| v.as_bool()).unwrap_or(false) {
            sim::count("fault:init-rejected");
            Err(async_graphql::Error::new("rejected"))
        } else {
            Ok(Data::default())
        }
    };
    let on_ping = move |_data: Option<&Data>, payload: Option<serde_json::Value>| async move {
        sim::gate(ping_lat).await;
        if payload.as_ref().and_then(|p| p.get("fail")).and_then(|v| v.as_bool()).unwrap_or(false) {
            sim::count("fault:ping-callback-error");
            Err(async_graphql::Error::new("ping refused"))
        } else {
            Ok(payload)
        }
    };
    let schema = world::static_schema(0).clone();
    let consumer = move |mut ws: Pin<Box<dyn Stream<Item = WsMessage>>>| async move {
        let mut n = 0u32;
        let mut items = 0u32;
        loop {
            if lag > 0 {
                n += 1;
                sim::sleep(world::latency_for(&format!("wsconsumer{n}")) * lag).await;
            }
            items += 1;
            if items % 64 == 0 {
                // a connection that produces output forever must not starve the scheduler
                sim::yield_now().await;
            }
            if items > 5_000 {
                wslog(WsEv::OutEnd);
                break;
            }
            match ws.next().await {
                Some(WsMessage::Text(t)) => {
                    let v: J = serde_json::from_str(&t).unwrap_or(J::String(t));
                    if v["type"] == "connection_ack" {
                        let at = world(|w| w.log.len());
                        ACK_AT.with(|a| {
                            let mut a = a.borrow_mut();
                            if a.is_none() {
                                *a = Some(at);
                            }
                        });
                    }
                    wslog(WsEv::Out(v));
                }
                Some(WsMessage::Close(code, _)) => wslog(WsEv::OutClose(code)),
                None => {
                    wslog(WsEv::OutEnd);
                    break;
                }
            }
        }
    };
    if dynamic_executor {
        let mut ws = WebSocket::new(world::dynamic_schema(0).clone(), Inbox { rx: in_rx }, protocol).on_connection_init(on_init).on_ping(on_ping);
        if let Some(d) = keepalive {
            ws = ws.keepalive_timeout(SimTimer { late: false }, Duration::from_micros(d));
        }
        sim::spawn_local("ws-consumer", consumer(Box::pin(ws)));
    } else if message_stream {
        let mut ws = WebSocket::from_message_stream(schema, MsgInbox { rx: in_rx }, protocol).on_connection_init(on_init).on_ping(on_ping);
        if let Some(d) = keepalive {
            ws = ws.keepalive_timeout(SimTimer { late: false }, Duration::from_micros(d));
        }
        sim::spawn_local("ws-consumer", consumer(Box::pin(ws)));
    } else {
        let mut ws = WebSocket::new(schema, Inbox { rx: in_rx }, protocol).on_connection_init(on_init).on_ping(on_ping);
        if let Some(d) = keepalive {
            ws = ws.keepalive_timeout(SimTimer { late: faults && chance(1, 2) }, Duration::from_micros(d));
        }
        sim::spawn_local("ws-consumer", consumer(Box::pin(ws)));
    }
    let end = sim::run(50_000);
    let log = WSLOG.with(|l| l.borrow().clone());
    let rlog = world(|w| std::mem::take(&mut w.log));
    let desc = format!(
        "protocol {:?}; script {:?}; disconnect {:?}; channel events {:?}; keepalive {:?}; consumer lag {lag}; params {:?}; init latency {init_lat}",
        protocol, script.acts, script.disconnect_at, script.chan_events, keepalive, params
    );
    let times = WSTIME.with(|l| l.borrow().clone());
    monitor(&script, legacy, keepalive.is_some(), keepalive, &times, &log, &rlog, end, &desc, &mut out);
    if sim::verbose() {
        out.sample = Some(json!({"protocol": format!("{:?}", protocol), "script": script.acts.iter().map(|(t, a)| format!("t={t} {:?}", a)).collect::<Vec<_>>(),
            "disconnect_at": script.disconnect_at, "channel_events": script.chan_events.len(), "keepalive_us": keepalive, "consumer_lag": lag,
            "history": log.iter().map(|e| format!("{:?}", e)).collect::<Vec<_>>()}));
    }
    out
}

#[derive(Clone, Debug, PartialEq)]
enum Expect {
    /// close frame with this code (None = any code), then end
    Close(Option<u16>),
    /// legacy: a connection_error text, then end
    ConnError,
    /// legacy: connection_error text or any close
    ConnErrorOrClose,
    CompleteFor(String),
    /// ack, or a rejection
    AckOrReject,
    /// pong, or a failure of the ping callback
    PongOrFail,
    End,
}

#[allow(dead_code)]
struct LiveOp {
    idx: usize,
    kind: OpKind,
    nexts: usize,
    last_event: i32,
}

#[allow(clippy::too_many_arguments)]
fn monitor(script: &Script, legacy: bool, keepalive: bool, interval: Option<u64>, times: &[u64], log: &[WsEv], rlog: &[world::REvent], end: sim::End, desc: &str, out: &mut CaseOut) {
    let mut init_seen = false;
    let mut acked = false;
    let mut live: BTreeMap<String, LiveOp> = BTreeMap::new();
    // a protocol violation was consumed: the connection must be closed (with this code); other valid
    // output may still come first, further client messages may not be processed
    let mut due_close: Option<Expect> = None;
    // answers the server still owes: ack (or rejection), pongs, echoes of client completes, end
    let mut obl: Vec<Expect> = vec![];
    let mut closed = false; // close frame / connection_error seen: only End may follow
    let mut ended = false;
    let mut delivered_events: BTreeMap<i32, Vec<i32>> = BTreeMap::new();
    let mut ended_channels: BTreeSet<i32> = BTreeSet::new();
    let mut consumed: BTreeSet<usize> = BTreeSet::new();
    let mut delivered: BTreeSet<usize> = BTreeSet::new();
    let mut inbox_ended = false;
    let mut completed_ids: BTreeSet<String> = BTreeSet::new();
    let mut queued_max = 0usize;
    macro_rules! fail {
        ($class:expr, $($arg:tt)*) => {{
            out.viol($class, format!("{}; history: {:?}; {desc}", format!($($arg)*), log));
            return;
        }};
    }
    fn take(obl: &mut Vec<Expect>, pred: impl Fn(&Expect) -> bool) -> bool {
        match obl.iter().position(|e| pred(e)) {
            Some(i) => {
                obl.remove(i);
                true
            }
            None => false,
        }
    }
    // time of the most recent client activity the server has seen (start of the connection counts)
    let mut last_activity: u64 = 0;
    for (pos, ev) in log.iter().enumerate() {
        let t_now = times.get(pos).cloned().unwrap_or(0);
        match ev {
            WsEv::Delivered(k) => {
                delivered.insert(*k);
                queued_max = queued_max.max(delivered.len() - consumed.len());
            }
            WsEv::ChanDeliver(ch, id) => delivered_events.entry(*ch).or_default().push(*id),
            WsEv::ChanEnd(ch) => {
                ended_channels.insert(*ch);
            }
            WsEv::ConsumedEnd => inbox_ended = true,
            WsEv::Consumed(k) => {
                if closed || ended {
                    fail!("C25/consumed-after-close", "message #{k} consumed after the connection was closed");
                }
                consumed.insert(*k);
                last_activity = t_now;
                if !live.is_empty() {
                    sim::count("probe:operation-live-while-input-processed");
                    out.nontrivial = true;
                }
                if let Some(p) = &due_close {
                    fail!("C25/processing-after-violation", "message #{k} processed although the connection has to be closed ({:?})", p);
                }
                if obl.contains(&Expect::End) {
                    fail!("C25/processing-after-terminate", "message #{k} processed after connection_terminate");
                }
                if !obl.is_empty() {
                    sim::count("probe:message-consumed-while-answer-outstanding");
                }
                let act = &script.acts[*k].1;
                match act {
                    Act::InvalidJson | Act::UnknownType => {
                        due_close = Some(if legacy { Expect::ConnErrorOrClose } else { Expect::Close(Some(4400)) });
                    }
                    Act::Init { .. } => {
                        if init_seen {
                            due_close = Some(if legacy { Expect::ConnError } else { Expect::Close(Some(4429)) });
                        } else {
                            init_seen = true;
                            obl.push(Expect::AckOrReject);
                        }
                    }
                    Act::Subscribe { id, kind } => {
                        if !acked {
                            due_close = Some(if legacy { Expect::ConnErrorOrClose } else { Expect::Close(Some(4401)) });
                        } else if live.contains_key(id) {
                            sim::count("probe:id-reused-while-live");
                            if legacy {
                                // the legacy protocol has no rule: the new operation replaces the old one
                                live.insert(id.clone(), LiveOp { idx: *k, kind: kind.clone(), nexts: 0, last_event: 0 });
                            } else {
                                due_close = Some(Expect::Close(Some(4409)));
                            }
                        } else {
                            if completed_ids.contains(id) {
                                sim::count("probe:id-reused-after-complete");
                            }
                            live.insert(id.clone(), LiveOp { idx: *k, kind: kind.clone(), nexts: 0, last_event: 0 });
                        }
                    }
                    Act::Complete { id } => {
                        if let Some(op) = live.remove(id) {
                            if let OpKind::Sub(ch) = op.kind {
                                let d = delivered_events.get(&ch).map(|v| v.len()).unwrap_or(0);
                                if d > op.nexts {
                                    sim::count("probe:stop-with-event-queued");
                                }
                            }
                            completed_ids.insert(id.clone());
                            // this implementation echoes a complete; the echo is optional in graphql-transport-ws
                            obl.push(Expect::CompleteFor(id.clone()));
                        }
                    }
                    Act::Ping { .. } => obl.push(Expect::PongOrFail),
                    Act::Pong => {}
                    Act::Terminate => obl.push(Expect::End),
                }
            }
            WsEv::Out(v) => {
                if closed || ended {
                    fail!("C25/output-after-close", "output {v} after the connection was closed");
                }
                // after a connection_terminate was consumed the server may still flush valid output
                // (e.g. the echo of an earlier stop); it must not process further input and must end
                let ty = v["type"].as_str().unwrap_or("");
                match ty {
                    "connection_error" if legacy => {
                        let is_timeout = keepalive && v["payload"]["message"] == "timeout";
                        let due = matches!(due_close, Some(Expect::ConnError) | Some(Expect::ConnErrorOrClose));
                        let callback_failed = obl.iter().any(|e| matches!(e, Expect::AckOrReject | Expect::PongOrFail));
                        if is_timeout {
                            sim::count("probe:keepalive-fired");
                            if let Some(iv) = interval {
                                if t_now < last_activity + iv {
                                    fail!("C25/premature-keepalive-timeout", "keep-alive timeout at t={t_now} although the server processed a client message at t={last_activity} and the timeout is {iv}");
                                }
                            }
                        } else if !(due || callback_failed) {
                            fail!("C25/unexpected-output", "connection_error without a reason: {v}");
                        }
                        closed = true;
                        due_close = None;
                        obl.clear();
                    }
                    "connection_ack" => {
                        if !take(&mut obl, |e| *e == Expect::AckOrReject) {
                            fail!("C25/unexpected-ack", "connection_ack without an outstanding connection_init (init seen: {init_seen}, already acknowledged: {acked})");
                        }
                        acked = true;
                    }
                    "pong" => {
                        if !take(&mut obl, |e| *e == Expect::PongOrFail) {
                            fail!("C25/unexpected-pong", "pong without an outstanding ping");
                        }
                    }
                    "next" | "data" => {
                        if (ty == "next") == legacy {
                            fail!("C25/wrong-message-type", "message type {ty} does not belong to the negotiated protocol");
                        }
                        if !acked {
                            fail!("C25/data-before-ack", "{v} before connection_ack");
                        }
                        let id = v["id"].as_str().unwrap_or("").to_string();
                        let Some(op) = live.get_mut(&id) else { fail!("C25/next-for-dead-id", "{v} for an id that is not live") };
                        match &op.kind {
                            OpKind::Sub(ch) => {
                                let n = v["payload"]["data"]["events"]["id"].as_i64().unwrap_or(-1) as i32;
                                // position of the event in the delivery order of this operation's source (1-based)
                                let idx = delivered_events.get(ch).and_then(|d| d.iter().position(|x| *x == n)).map(|i| i as i32 + 1);
                                let Some(idx) = idx else {
                                    fail!("C25/foreign-payload", "{v}: payload is not an event delivered to this operation (channel {ch}: {:?})", delivered_events.get(ch))
                                };
                                if idx <= op.last_event {
                                    fail!("C25/duplicate-or-reordered-event", "{v}: delivery #{idx} emitted after delivery #{}", op.last_event);
                                }
                                op.last_event = idx;
                                op.nexts += 1;
                            }
                            _ => {
                                op.nexts += 1;
                                if op.nexts > 1 {
                                    fail!("C25/extra-response", "{v}: a query over the socket produced more than one response");
                                }
                            }
                        }
                    }
                    "complete" => {
                        let id = v["id"].as_str().unwrap_or("").to_string();
                        // the echo of a client's complete, or the end of a live operation
                        if take(&mut obl, |e| *e == Expect::CompleteFor(id.clone())) {
                            continue;
                        }
                        let Some(op) = live.remove(&id) else { fail!("C25/complete-for-dead-id", "{v} for an id that is not live (completed twice?)") };
                        completed_ids.insert(id);
                        match op.kind {
                            OpKind::Sub(ch) => {
                                if !ended_channels.contains(&ch) {
                                    fail!("C25/premature-complete", "{v}: the operation's source has not ended");
                                }
                            }
                            _ => {
                                if op.nexts != 1 {
                                    fail!("C25/complete-without-response", "{v}: a query over the socket completed with {} responses", op.nexts);
                                }
                            }
                        }
                    }
                    _ => fail!("C25/unexpected-output", "unexpected output {v}"),
                }
            }
            WsEv::OutClose(code) => {
                if closed || ended {
                    fail!("C25/output-after-close", "close {code} after the connection was closed");
                }
                closed = true;
                let callback_failed = obl.iter().any(|e| matches!(e, Expect::AckOrReject | Expect::PongOrFail));
                match &due_close {
                    Some(Expect::Close(Some(want))) => {
                        if code != want {
                            if *want == 4401 && *code == 1011 {
                                out.known(
                                    "C25-subscribe-before-ack-closes-1011",
                                    "C25/wrong-close-code",
                                    format!("subscribe before connection_ack closed with 1011, graphql-transport-ws says 4401; {desc}"),
                                );
                            } else {
                                fail!("C25/wrong-close-code", "closed with {code}, the protocol says {want}");
                            }
                        }
                    }
                    Some(Expect::Close(None)) | Some(Expect::ConnErrorOrClose) => {}
                    Some(p) => fail!("C25/wrong-response", "expected {:?}, got close {code}", p),
                    None => {
                        if callback_failed && !legacy {
                            // a rejected init or a failed ping callback: any close code
                        } else if keepalive && !legacy && (*code == 3008 || (*code == 4408 && !acked)) {
                            // the library's keep-alive close; 4408 is the protocol's "connection
                            // initialisation timeout", legal while the connection is not acknowledged
                            sim::count("probe:keepalive-fired");
                            if let Some(iv) = interval {
                                if t_now < last_activity + iv {
                                    fail!("C25/premature-keepalive-timeout", "keep-alive close {code} at t={t_now} although the server processed a client message at t={last_activity} and the timeout is {iv}");
                                }
                            }
                        } else {
                            fail!("C25/unexpected-close", "close {code} without a reason");
                        }
                    }
                }
                due_close = None;
                obl.clear();
            }
            WsEv::OutEnd => {
                ended = true;
                let terminated = take(&mut obl, |e| *e == Expect::End);
                if !(closed || inbox_ended || terminated) {
                    fail!("C25/unexpected-end", "the stream ended although the connection was neither closed nor the client gone (outstanding: {:?} {:?})", due_close, obl);
                }
                if let (Some(p), false, false) = (&due_close, closed, inbox_ended) {
                    fail!("C25/missing-close", "the stream ended without the close the protocol requires ({:?})", p);
                }
            }
        }
    }
    if queued_max >= 2 {
        sim::count("probe:several-inputs-queued-before-poll");
    }
    // operations run only after the ack
    let ack_at = ACK_AT.with(|a| *a.borrow());
    for (i, e) in rlog.iter().enumerate() {
        if e.kind == RKind::Start {
            match ack_at {
                Some(a) if i >= a => {}
                _ => fail!("C25/resolver-before-ack", "resolver {} started before the connection was acknowledged", e.path),
            }
        }
    }
    // bounded liveness at quiescence
    if end != sim::End::Quiescent {
        fail!("C25/no-progress", "step cap reached");
    }
    if !closed && !ended {
        if let Some(p) = &due_close {
            fail!("C25/missing-close", "the connection is still open at quiescence although the protocol requires closing it ({:?})", p);
        }
        // the echo of a client's complete is optional (graphql-transport-ws does not ask for it)
        obl.retain(|e| !matches!(e, Expect::CompleteFor(_)));
        if !obl.is_empty() && !keepalive {
            fail!("C25/stall", "{:?} still outstanding at quiescence", obl);
        }
        if delivered.len() != consumed.len() {
            fail!("C25/stall", "{} delivered messages were never consumed although the connection is open", delivered.len() - consumed.len());
        }
        for (id, op) in &live {
            match &op.kind {
                OpKind::Sub(ch) => {
                    // the event delivered last must have been forwarded (a lost wake-up leaves it stuck);
                    // earlier events are not judged: the property promises no delivery
                    let d = delivered_events.get(ch).map(|v| v.len()).unwrap_or(0) as i32;
                    if d > op.last_event {
                        fail!("C25/stall", "operation '{id}': the last event delivered to its source (delivery #{d}) was never forwarded although the connection is open and idle (last forwarded: #{})", op.last_event);
                    }
                    if (d as usize) > op.nexts {
                        sim::count("probe:event-not-forwarded");
                    }
                    if ended_channels.contains(ch) {
                        fail!("C25/stall", "operation '{id}' was never completed although its source ended");
                    }
                }
                _ => fail!("C25/stall", "query operation '{id}' never completed"),
            }
        }
    } else if closed && !ended {
        fail!("C25/stall", "close was sent but the stream did not end");
    }
}
