//! C05 — responses do not depend on the order in which concurrent resolvers complete.

use serde_json::json;

use super::{
    c03::{draw_plan, flavour_of, ExecLike},
    exec::*,
    qgen::{gen_operation, GenCfg},
    world::{reset_world, RKind},
};
use crate::core::{
    check::{CaseOut, CheckDef},
    sim::{self, draw, Params, Policy},
};

pub static DEF: CheckDef = CheckDef {
    id: "C05",
    variants: &["static-query", "dynamic-query", "static-mutation", "dynamic-mutation", "static-query-repeated-keys", "dynamic-query-repeated-keys"],
    run,
    quick_runs: 100_000,
    thorough_runs: 6_000_000,
    rule: "case = generated operation + fault plan (none, a single fault anywhere, or 1-3 faults on nullable fields) executed under 5 schedules: everything-ready FIFO (what the test-suite sees), LIFO with drawn latencies, and 3 drawn (latency seed/profile, policy, event batching). Oracle: data (including response-key order) identical and errors equal as multisets of (path, locations) across all schedules. Non-trivial = at least two different resolver completion orders were observed for the case; distinct = distinct event-order hashes.",
    real: &["async-graphql executor (static and dynamic)", "futures-util joins", "request-wide error list"],
    stub: &["async runtime (simulator)", "resolvers and guards (harness, gated)"],
    assumptions: &["resolvers are deterministic functions of their inputs (harness values depend on the parent object only)"],
    restrictions: &["completion orders are sampled, not enumerated (the property's 'exhaustive up to 6 gated resolvers' is model checking); reach is reported as distinct completion orders", "two faults inside one non-null region race legitimately, so multi-fault plans (and all plans of the repeated-keys variants) use nullable fields only"],
    expected_probes: &["probe:two-resolvers-in-flight", "probe:completion-order-differs", "probe:error-order-differs"],
};

fn completion_order(log: &[super::world::REvent]) -> Vec<String> {
    log.iter().filter(|e| matches!(e.kind, RKind::Finish | RKind::Failed(_))).map(|e| e.path.clone()).collect()
}

fn run(variant: usize) -> CaseOut {
    let mut out = CaseOut::default();
    reset_world();
    let flavour = flavour_of(variant);
    let op = if variant < 2 || variant >= 4 { "query" } else { "mutation" };
    // the repeated-keys variants select response keys more than once (every occurrence resolves and
    // may fail on its own); faults there stay on nullable fields, where nothing races
    let dup = variant >= 4;
    let query = gen_operation(op, if dup { GenCfg { dup_keys: true, ..GenCfg::default() } } else { GenCfg::default() }.for_flavour(flavour == Flavour::Static));
    set_latency(0, 0);
    let base = run_request("baseline", flavour, 0, &query, Some(Params::default()));
    let Some(base_resp) = base.resp else {
        out.viol("C05/stall", format!("baseline did not complete: {query}"));
        return out;
    };
    if base_resp.get("errors").is_some() {
        sim::count("discard:baseline-has-errors");
        out.discarded = true;
        return out;
    }
    let basel = ExecLike { data: data_of(&base_resp), log: base.log };
    let plan = match draw(3) {
        0 => None,
        1 if !dup => Some(draw_plan(flavour, &basel, 1, false)),
        _ => Some(draw_plan(flavour, &basel, 3, true)),
    };
    if let Some(p) = &plan {
        set_plan(&p.faults, &p.item_faults);
    }
    let faults_desc = describe_faults();
    let mut results: Vec<(String, String, Vec<(String, String)>, Vec<String>, Vec<String>)> = vec![];
    for k in 0..5 {
        let params = match k {
            0 => {
                set_latency(0, 0);
                Params::default()
            }
            1 => {
                set_latency(draw(1 << 16) as u64, 1 + draw(3));
                let p = Params { policy: Policy::Lifo, batch_mode: 1, ..Params::default() };
                sim::set_params(p);
                p
            }
            _ => {
                set_latency(draw(1 << 16) as u64, [1u32, 2, 3, 0][draw(4) as usize]);
                sim::draw_params()
            }
        };
        let r = run_request(&format!("schedule{k}"), flavour, 0, &query, Some(params));
        let Some(resp) = r.resp else {
            out.viol("C05/stall", format!("schedule {k} did not complete ({:?}); query: {query}; faults: {faults_desc}", r.end));
            return out;
        };
        let raw_err_order: Vec<String> = resp.get("errors").and_then(|e| e.as_array()).map(|a| a.iter().map(|e| e["path"].to_string()).collect()).unwrap_or_default();
        results.push((format!("schedule{k}"), r.data_text, error_set(&resp), completion_order(&r.log), raw_err_order));
    }
    let orders: std::collections::BTreeSet<&Vec<String>> = results.iter().map(|r| &r.3).collect();
    if orders.len() >= 2 {
        out.nontrivial = true;
        sim::count("probe:completion-order-differs");
    }
    let err_orders: std::collections::BTreeSet<&Vec<String>> = results.iter().map(|r| &r.4).collect();
    if err_orders.len() >= 2 {
        sim::count("probe:error-order-differs");
    }
    let first = &results[0];
    for r in &results[1..] {
        if r.1 != first.1 {
            out.viol("C05/data-differs", format!("data under {} = {} but under {} = {}; query: {query}; faults: {faults_desc}", first.0, first.1, r.0, r.1));
            break;
        }
        if r.2 != first.2 {
            out.viol("C05/errors-differ", format!("errors under {} = {:?} but under {} = {:?}; query: {query}; faults: {faults_desc}", first.0, first.2, r.0, r.2));
            break;
        }
    }
    if sim::verbose() {
        out.sample = Some(json!({"flavour": format!("{:?}", flavour), "query": query, "faults": faults_desc, "data": first.1, "errors": first.2,
            "completion_orders_observed": orders.len()}));
    }
    out
}
