//! Execution scenarios over the harness schemas: shared runner and response model.

use std::collections::{BTreeMap, BTreeSet};

use async_graphql::Request;
use futures_util::StreamExt;
use serde_json::{json, Value as J};

use super::world::{self, begin_world_exec, field_def, world, Fault, REvent, RKind, SubItem, Ty};
use crate::core::sim::{self, End, Params};

#[derive(Clone, Copy, PartialEq, Eq, Debug)]
pub enum Flavour {
    Static,
    Dynamic,
}

pub struct ExecOut {
    pub resp: Option<J>,
    /// `data` serialised in response-key order
    pub data_text: String,
    pub cache_control: String,
    pub log: Vec<REvent>,
    pub hooks: Vec<String>,
    pub end: End,
}

/// Execute one request to completion under the simulator.
pub fn run_request(label: &str, flavour: Flavour, n_ext: usize, query: &str, params: Option<Params>) -> ExecOut {
    run_request_with(label, flavour, n_ext, query, None, None, params)
}

/// Same, with an operation name and variables.
thread_local! {
    /// When set, requests are handed to the schema with their document already parsed
    /// (`Request::parsed_query()`), the way integrations that inspect the operation first do.
    pub static PRE_PARSE: std::cell::Cell<bool> = const { std::cell::Cell::new(false) };
}

pub fn run_request_with(label: &str, flavour: Flavour, n_ext: usize, query: &str, operation_name: Option<&str>, variables: Option<J>, params: Option<Params>) -> ExecOut {
    begin_world_exec();
    sim::begin_exec(label);
    match params {
        Some(p) => sim::set_params(p),
        None => {}
    }
    let mut req = Request::new(query.to_string());
    if let Some(op) = operation_name {
        req = req.operation_name(op);
    }
    if let Some(v) = variables {
        req = req.variables(async_graphql::Variables::from_json(v));
    }
    if PRE_PARSE.with(|c| c.get()) {
        sim::count("probe:request-carries-parsed-document");
        let _ = req.parsed_query();
    }
    let (_, slot) = match flavour {
        Flavour::Static => {
            let schema = world::static_schema(n_ext);
            sim::spawn_slot("request", async move { ser(schema.execute(req).await) })
        }
        Flavour::Dynamic => {
            let schema = world::dynamic_schema(n_ext);
            sim::spawn_slot("request", async move { ser(schema.execute(req).await) })
        }
    };
    let end = sim::run(100_000);
    let r = slot.take();
    let (log, hooks) = world(|w| (std::mem::take(&mut w.log), std::mem::take(&mut w.hooks)));
    match r {
        Some((resp, data_text, cache_control)) => ExecOut { resp: Some(resp), data_text, cache_control, log, hooks, end },
        None => ExecOut { resp: None, data_text: String::new(), cache_control: String::new(), log, hooks, end },
    }
}

fn ser(resp: async_graphql::Response) -> (J, String, String) {
    (serde_json::to_value(&resp).unwrap(), serde_json::to_string(&resp.data).unwrap(), format!("{:?}", resp.cache_control))
}

/// One scripted subscription event.
#[derive(Clone, Debug)]
pub struct SubEvent {
    pub at: u64,
    pub ch: i32,
    pub item: Option<SubItem>, // None = end of the channel
}

pub struct StreamOut {
    pub responses: Vec<J>,
    pub ended: bool,
    pub log: Vec<REvent>,
    pub hooks: Vec<String>,
    pub end: End,
}

/// Run `execute_stream`; events are delivered at their scripted times; the consumer may lag.
pub fn run_stream(label: &str, flavour: Flavour, n_ext: usize, query: &str, params: Option<Params>, n_channels: i32, events: &[SubEvent], consumer_lag: u64) -> StreamOut {
    begin_world_exec();
    sim::begin_exec(label);
    if let Some(p) = params {
        sim::set_params(p);
    }
    let mut txs = BTreeMap::new();
    for ch in 0..n_channels {
        let (tx, rx) = sim::channel::<SubItem>();
        world(|w| w.channels.insert(ch, rx));
        txs.insert(ch, tx);
    }
    for ev in events {
        let tx = txs[&ev.ch].clone();
        let item = ev.item.clone();
        let ch = ev.ch;
        sim::at(ev.at, move || match item {
            Some(it) => {
                sim::log_order(format!("deliver ch={ch} {:?}", it));
                tx.push(it)
            }
            None => {
                sim::log_order(format!("end ch={ch}"));
                tx.end()
            }
        });
    }
    let q = query.to_string();
    let out: std::rc::Rc<std::cell::RefCell<(Vec<J>, bool)>> = Default::default();
    let out2 = out.clone();
    let fut = async move {
        let mut stream = match flavour {
            Flavour::Static => world::static_schema(n_ext).execute_stream(Request::new(q)),
            Flavour::Dynamic => world::dynamic_schema(n_ext).execute_stream(Request::new(q)),
        };
        let mut n = 0u32;
        while let Some(resp) = stream.next().await {
            let v = serde_json::to_value(&resp).unwrap();
            sim::log_order(format!("response {}", v));
            world::push_event(RKind::Response, "", "", "", (0, 0), world::NodeData { id: -1, ev: -1 });
            out2.borrow_mut().0.push(v);
            if out2.borrow().0.len() % 64 == 0 {
                sim::yield_now().await;
            }
            if consumer_lag > 0 {
                n += 1;
                sim::sleep(world::latency_for(&format!("consumer{n}")) * consumer_lag).await;
            }
        }
        out2.borrow_mut().1 = true;
    };
    sim::spawn_local("stream-consumer", fut);
    let end = sim::run(200_000);
    let (responses, ended) = {
        let o = out.borrow();
        (o.0.clone(), o.1)
    };
    let (log, hooks) = world(|w| (std::mem::take(&mut w.log), std::mem::take(&mut w.hooks)));
    StreamOut { responses, ended, log, hooks, end }
}

// ------------------------------------------------------------------------------------------------
// response model helpers

/// errors as a sorted multiset of (path, locations)
pub fn error_set(resp: &J) -> Vec<(String, String)> {
    let mut v = vec![];
    if let Some(errs) = resp.get("errors").and_then(|e| e.as_array()) {
        for e in errs {
            let path = e.get("path").and_then(|p| p.as_array()).map(|p| p.iter().map(seg_str).collect::<Vec<_>>().join(".")).unwrap_or_else(|| "<none>".into());
            let locs = e
                .get("locations")
                .and_then(|l| l.as_array())
                .map(|l| l.iter().map(|x| format!("{}:{}", x["line"], x["column"])).collect::<Vec<_>>().join(","))
                .unwrap_or_default();
            v.push((path, locs));
        }
    }
    v.sort();
    v
}

fn seg_str(s: &J) -> String {
    match s {
        J::String(s) => s.clone(),
        other => other.to_string(),
    }
}

pub fn data_of(resp: &J) -> J {
    resp.get("data").cloned().unwrap_or(J::Null)
}

pub fn failures(log: &[REvent]) -> Vec<&REvent> {
    log.iter().filter(|e| matches!(e.kind, RKind::Failed(_))).collect()
}

/// path -> (parent type, field name, line, col) for every field position seen in the logs
pub fn field_map(logs: &[&[REvent]]) -> BTreeMap<String, (String, String, usize, usize)> {
    let mut m = BTreeMap::new();
    for log in logs {
        for e in log.iter() {
            if e.kind == RKind::Start && !m.contains_key(&e.path) {
                m.insert(e.path.clone(), (e.parent.clone(), e.field.clone(), e.line, e.col));
            }
        }
    }
    m
}

/// The types of the positions along `path` (one per segment), or None if a prefix is unknown.
pub fn position_types(path: &str, fmap: &BTreeMap<String, (String, String, usize, usize)>, root_types: &BTreeMap<String, Ty>) -> Option<Vec<Ty>> {
    let segs: Vec<&str> = path.split('.').collect();
    let mut out: Vec<Ty> = vec![];
    let mut prefix = String::new();
    for (i, s) in segs.iter().enumerate() {
        if i > 0 {
            prefix.push('.');
        }
        prefix.push_str(s);
        let is_index = s.chars().all(|c| c.is_ascii_digit());
        if is_index && i > 0 {
            let prev = out.last()?;
            out.push(prev.item()?.clone());
        } else if let Some(t) = root_types.get(&prefix) {
            out.push(t.clone());
        } else {
            let (parent, field, _, _) = fmap.get(&prefix)?;
            let def = field_def(parent, field)?;
            out.push(Ty::parse(def.ty));
        }
    }
    Some(out)
}

/// Where the null lands for a failure at `path`: Some(prefix path) or None for "data as a whole".
pub fn null_position(path: &str, types: &[Ty]) -> Option<String> {
    let segs: Vec<&str> = path.split('.').collect();
    for i in (0..segs.len()).rev() {
        if types[i].nullable() {
            return Some(segs[..=i].join("."));
        }
    }
    None
}

/// Set the value at `path` to null; stops silently at an existing null on the way.
pub fn set_null(data: &mut J, path: &str) {
    let segs: Vec<&str> = path.split('.').collect();
    let mut cur = data;
    for (i, s) in segs.iter().enumerate() {
        let last = i == segs.len() - 1;
        let next = match cur {
            J::Object(m) => m.get_mut(*s),
            J::Array(a) => s.parse::<usize>().ok().and_then(|i| a.get_mut(i)),
            _ => None,
        };
        match next {
            None => return,
            Some(v) => {
                if last {
                    *v = J::Null;
                    return;
                }
                cur = v;
            }
        }
    }
}

/// All list-item positions in a response: (path, element is object).
pub fn list_item_paths(data: &J) -> Vec<String> {
    fn walk(v: &J, prefix: &str, out: &mut Vec<String>) {
        match v {
            J::Object(m) => {
                for (k, v) in m {
                    let p = if prefix.is_empty() { k.clone() } else { format!("{prefix}.{k}") };
                    walk(v, &p, out);
                }
            }
            J::Array(a) => {
                for (i, v) in a.iter().enumerate() {
                    let p = format!("{prefix}.{i}");
                    out.push(p.clone());
                    walk(v, &p, out);
                }
            }
            _ => {}
        }
    }
    let mut out = vec![];
    walk(data, "", &mut out);
    out
}

pub fn describe_faults() -> J {
    world(|w| {
        let mut m = serde_json::Map::new();
        for (k, v) in &w.faults {
            m.insert(k.clone(), json!(format!("{:?}", v)));
        }
        for (k, v) in &w.item_faults {
            m.insert(format!("{k} (item)"), json!(format!("{:?}", v)));
        }
        J::Object(m)
    })
}

pub fn set_plan(faults: &BTreeMap<String, Fault>, item_faults: &BTreeMap<String, Fault>) {
    world(|w| {
        w.faults = faults.clone();
        w.item_faults = item_faults.clone();
    })
}

pub fn set_latency(seed: u64, profile: u32) {
    world(|w| {
        w.lat_seed = seed;
        w.lat_profile = profile;
    })
}

pub fn started_paths(log: &[REvent]) -> BTreeSet<String> {
    log.iter().filter(|e| e.kind == RKind::Start).map(|e| e.path.clone()).collect()
}
