# checks added after the exec family; merged by gen_manifest.py
EXTRA_CLAIMED = {
 "C12": ("httpio", "§3 C12", "Transport-facing surfaces only: seeded search over hostile and mutated bodies and WebSocket message sequences delivered through simulated readers/inboxes with chunking, truncation and I/O errors, followed by execution of whatever was decoded; oracle = no panic (attributed by source location), no stall, error answers. Grammar-level fuzzing of the parser (e.g. the 200k-bracket overflow) is not this family and is not attempted."),
 "C23": ("httpio", "§3 C23", "Seeded search over generated requests in four encodings through a simulated reader (chunk schedules, Pending gaps, truncation, I/O errors) and over batch executions under drawn completion orders; the cross-encoding equality is an input-level comparison riding on the simulated transport."),
 "C24": ("httpio", "§3 C24", "Seeded search over generated multipart upload requests and limit options through the simulated reader (with and without faults) against a reference model of the multipart request spec; bindings observed by executing the decoded requests."),
 "C26": ("mpsub", "§3 C26", "Seeded search over interleavings of response arrivals, heartbeat expiries (incl. late), end-of-stream, consumer back-pressure and the select! coin on the real create_multipart_mixed_stream; oracle = independent strict RFC 2046 parser + exactly-once/in-order comparison."),
 "C28": ("dataloader", "§3 C28", "Seeded search over interleavings of 1-5 client tasks, spawned batch tasks, timer firings (incl. late) and loader completions on the real DataLoader, with failing/omitting loaders and cancelled waiters; oracle = history checker over invoke/return events stamped with a global sequence number."),
 "C25": ("ws", "§3 C25", "Seeded search over client scripts interleaved with subscription events, source ends, callback completions, keep-alive expiries and consumer lag on the real WebSocket state machine (both protocols, both constructors); oracle = protocol monitor over consumption points and outputs."),
 "C29": ("dataloader", "§3 C29", "Seeded search over sequential operation histories (<=40 ops) compared operation by operation with an executable reference cache (none / map / exact LRU with enable flags)."),
}
EXTRA_NA = {
 "C31": "check not built yet (planned, DESIGN §3 C31)",
}
