//! C30 — pass-through extensions are transparent; hooks run nested, in lifecycle order.

use std::collections::BTreeMap;

use serde_json::json;

use super::{
    c03::{draw_plan, flavour_of, ExecLike},
    exec::*,
    qgen::{gen_operation, GenCfg},
    world::{reset_world, world},
};
use crate::core::{
    check::{CaseOut, CheckDef},
    sim::{self, chance, draw, Params},
};

pub static DEF: CheckDef = CheckDef {
    id: "C30",
    variants: &["static-exec", "dynamic-exec", "static-rejected", "dynamic-rejected"],
    run,
    quick_runs: 100_000,
    thorough_runs: 6_000_000,
    rule: "case = generated query or mutation (valid; or rejected at parse / validation in the 'rejected' variants), optional fault plan of the schedule-independent class (none, one fault, or faults on nullable fields), executed once without extensions and once with a stack of 1-3 recording pass-through extensions whose hooks may suspend on simulator gates before and after delegating, each under its own drawn schedule; one case in four runs both in lockstep instead (same resolver latencies, FIFO, hooks never suspend) with an unrestricted fault plan, so that failures racing inside one non-null region must come out the same too. Oracle: (a) identical response (data in key order, error multiset, extensions, cache control); (b) hook trace: request encloses everything; prepare_request < parse_query < validation < execute, each exactly once up to the stage that rejected the request; per hook kind entries in registration order and exits reversed; resolve entered at most once per position per extension, nested, and (fault-free) exactly once for every resolved field and list element. Non-trivial = an extension hook actually suspended or a fault fired; distinct = distinct event-order hashes.",
    real: &["async-graphql extension chain (Next* runners), extension branches of field and list resolution (static and dynamic), prepare_request pipeline"],
    stub: &["async runtime (simulator)", "recording extensions (harness)", "resolvers (harness, gated)"],
    assumptions: &["queries checked for resolve-hook counts contain no __typename (the library answers it without a resolver)"],
    restrictions: &["subscriptions are not part of this check (the property speaks of queries and mutations)"],
    expected_probes: &["probe:extension-hook-suspended", "probe:two-resolvers-in-flight"],
};

const STAGES: [&str; 4] = ["prepare_request", "parse_query", "validation", "execute"];

fn check_hooks(hooks: &[String], n_ext: usize, rejected_at: Option<&str>) -> Result<(), String> {
    let pos = |s: &str| hooks.iter().position(|h| h == s);
    let cnt = |s: &str| hooks.iter().filter(|h| *h == s).count();
    // request encloses everything
    if hooks.first().map(|s| s.as_str()) != Some(">request#0") || hooks.last().map(|s| s.as_str()) != Some("<request#0") {
        return Err(format!("request hook of extension 0 does not enclose the trace: first {:?}, last {:?}", hooks.first(), hooks.last()));
    }
    let reached: Vec<&str> = match rejected_at {
        Some("parse") => vec!["request", "prepare_request", "parse_query"],
        Some("validation") => vec!["request", "prepare_request", "parse_query", "validation"],
        _ => vec!["request", "prepare_request", "parse_query", "validation", "execute"],
    };
    for kind in ["request", "prepare_request", "parse_query", "validation", "execute"] {
        let should = reached.contains(&kind);
        for i in 0..n_ext {
            let (e, x) = (cnt(&format!(">{kind}#{i}")), cnt(&format!("<{kind}#{i}")));
            let want = if should { 1 } else { 0 };
            if e != want || x != want {
                return Err(format!("hook {kind} of extension {i}: entered {e} times, left {x} times, expected {want}"));
            }
        }
        if should {
            // nesting: >0 >1 .. >n-1 <n-1 .. <0
            let mut seq = vec![];
            for i in 0..n_ext {
                seq.push(pos(&format!(">{kind}#{i}")).unwrap());
            }
            for i in (0..n_ext).rev() {
                seq.push(pos(&format!("<{kind}#{i}")).unwrap());
            }
            if seq.windows(2).any(|w| w[0] >= w[1]) {
                return Err(format!("hook {kind} is not nested in registration order: positions {:?}", seq));
            }
        }
    }
    // lifecycle order
    let mut prev_exit: Option<usize> = None;
    for st in STAGES {
        if !reached.contains(&st) {
            continue;
        }
        let enter = pos(&format!(">{st}#0")).unwrap();
        let exit = pos(&format!("<{st}#0")).unwrap();
        if let Some(p) = prev_exit {
            if enter < p {
                return Err(format!("stage {st} entered before the previous stage was left"));
            }
        }
        prev_exit = Some(exit);
    }
    // resolve hooks: per position nested, at most once per extension, inside execute
    let mut per_pos: BTreeMap<String, Vec<(usize, &String)>> = BTreeMap::new();
    for (idx, h) in hooks.iter().enumerate() {
        if let Some(rest) = h[1..].strip_prefix("resolve:") {
            let p = rest.rsplit_once('#').map(|(p, _)| p.to_string()).unwrap_or_default();
            per_pos.entry(p).or_default().push((idx, h));
        }
    }
    let exec_in = pos(">execute#0");
    let exec_out = pos("<execute#0");
    for (p, hs) in &per_pos {
        for i in 0..n_ext {
            let e = hs.iter().filter(|(_, h)| **h == format!(">resolve:{p}#{i}")).count();
            if e > 1 {
                return Err(format!("resolve hook of extension {i} entered {e} times for position {p}"));
            }
        }
        let entries: Vec<usize> = hs.iter().filter(|(_, h)| h.starts_with('>')).map(|(_, h)| h.rsplit_once('#').unwrap().1.parse::<usize>().unwrap()).collect();
        if entries.windows(2).any(|w| w[0] >= w[1]) {
            return Err(format!("resolve hooks for {p} not entered in registration order: {:?}", entries));
        }
        if let (Some(a), Some(b)) = (exec_in, exec_out) {
            if hs.iter().any(|(i, _)| *i < a || *i > b) {
                return Err(format!("resolve hook for {p} ran outside the execute hook"));
            }
        }
    }
    Ok(())
}

fn run(variant: usize) -> CaseOut {
    let mut out = CaseOut::default();
    reset_world();
    PRE_PARSE.with(|c| c.set(false));
    let flavour = flavour_of(variant);
    let n_ext = 1 + draw(3) as usize;
    let op = if draw(3) == 0 { "mutation" } else { "query" };
    let mut query = gen_operation(op, GenCfg { typename: false, ..GenCfg::default() }.for_flavour(flavour == Flavour::Static));
    let mut rejected_at = None;
    // now and then the request names its operation and passes a variable
    let mut operation_name: Option<&str> = None;
    let mut variables: Option<serde_json::Value> = None;
    if chance(1, 3) {
        if let Some(pos) = query.find("echo(n: ") {
            let digit = query[pos + 8..].chars().next().filter(|c| c.is_ascii_digit());
            if let Some(dg) = digit {
                let head = format!("{op} {{");
                if query.starts_with(&head) {
                    query = format!("{op} Q($v: Int!) {{{}", &query[head.len()..]).replacen(&format!("echo(n: {dg})"), "echo(n: $v)", 1);
                    operation_name = Some("Q");
                    variables = Some(json!({"v": dg.to_digit(10).unwrap()}));
                    sim::count("probe:request-with-operation-name-and-variables");
                }
            }
        } else if chance(1, 2) {
            let head = format!("{op} {{");
            if query.starts_with(&head) {
                query = format!("{op} Q {{{}", &query[head.len()..]);
                operation_name = Some("Q");
            }
        }
    }
    if variant >= 2 {
        match draw(3) {
            0 => {
                query = query.replacen('{', "{{ ", 1).replacen('}', "", 1) + " ]";
                rejected_at = Some("parse");
            }
            1 => {
                query = query.replacen("{ ", "{ noSuchField ", 1);
                rejected_at = Some("validation");
            }
            _ => {
                query = format!("{query}\nfragment Unused on Node {{ id }}");
                rejected_at = Some("validation");
            }
        }
    }
    // plan from a fault-free baseline (only for valid requests)
    let mut lockstep = false;
    set_latency(0, 0);
    if rejected_at.is_none() {
        let base = run_request_with("baseline", flavour, 0, &query, operation_name, variables.clone(), Some(Params::default()));
        let Some(base_resp) = base.resp else {
            out.viol("C30/stall", format!("baseline did not complete: {query}"));
            return out;
        };
        if base_resp.get("errors").is_some() {
            sim::count("discard:baseline-has-errors");
            out.discarded = true;
            return out;
        }
        let basel = ExecLike { data: data_of(&base_resp), log: base.log };
        // lockstep cases: both runs get the same resolver latencies, the plain FIFO schedule and hooks
        // that never suspend, so every resolver completes at the same simulated instant in both; then
        // even failures that race inside one non-null region must come out the same
        lockstep = chance(1, 4);
        let plan = match draw(3) {
            _ if lockstep => Some(draw_plan(flavour, &basel, 3, false)),
            0 => None,
            1 => Some(draw_plan(flavour, &basel, 1, false)),
            _ => Some(draw_plan(flavour, &basel, 3, true)),
        };
        if let Some(p) = &plan {
            set_plan(&p.faults, &p.item_faults);
        }
    }
    let faults_desc = describe_faults();
    let faulty = faults_desc.as_object().map(|m| !m.is_empty()).unwrap_or(false);
    // one case in four hands the schema a request whose document is already parsed
    PRE_PARSE.with(|c| c.set(chance(1, 4)));
    // run without extensions
    let (lat_seed, lat_profile) = (draw(1 << 16) as u64, [1u32, 0, 2, 3][draw(4) as usize]);
    set_latency(lat_seed, lat_profile);
    let p0 = if lockstep { Params { fifo_ties: true, ..Params::default() } } else { sim::draw_params() };
    let plain = run_request_with("no-extensions", flavour, 0, &query, operation_name, variables.clone(), Some(p0));
    // run with extensions, hooks suspending
    world(|w| w.ext_gates = !lockstep && draw(4) != 0);
    if lockstep {
        sim::count("probe:lockstep-differential");
        set_latency(lat_seed, lat_profile);
    } else {
        set_latency(draw(1 << 16) as u64, [1u32, 0, 2, 3][draw(4) as usize]);
    }
    let p1 = if lockstep { Params { fifo_ties: true, ..Params::default() } } else { sim::draw_params() };
    let ext = run_request_with("with-extensions", flavour, n_ext, &query, operation_name, variables.clone(), Some(p1));
    PRE_PARSE.with(|c| c.set(false));
    let (Some(r0), Some(r1)) = (plain.resp.clone(), ext.resp.clone()) else {
        out.viol("C30/stall", format!("request did not complete (plain: {:?}, with extensions: {:?}); query: {query}; faults: {faults_desc}", plain.end, ext.end));
        return out;
    };
    if rejected_at.is_some() && r0.get("errors").is_none() {
        // the mutation did not make the request invalid after all
        sim::count("discard:rejection-not-effective");
        out.discarded = true;
        return out;
    }
    out.nontrivial = true;
    // (a) transparency
    let same = plain.data_text == ext.data_text && error_set(&r0) == error_set(&r1) && r0.get("extensions") == r1.get("extensions") && plain.cache_control == ext.cache_control;
    if !same {
        out.viol(
            "C30/response-changed",
            format!("without extensions: {r0} (cache {}); with {n_ext} pass-through extensions: {r1} (cache {}); query: {query}; faults: {faults_desc}", plain.cache_control, ext.cache_control),
        );
    }
    // messages must survive too
    let msgs = |r: &serde_json::Value| -> Vec<String> {
        let mut v: Vec<String> = r.get("errors").and_then(|e| e.as_array()).map(|a| a.iter().map(|e| e["message"].to_string()).collect()).unwrap_or_default();
        v.sort();
        v
    };
    if same && msgs(&r0) != msgs(&r1) {
        out.viol("C30/response-changed", format!("error messages differ: {:?} vs {:?}; query: {query}; faults: {faults_desc}", msgs(&r0), msgs(&r1)));
    }
    // (b) hook trace
    if let Err(e) = check_hooks(&ext.hooks, n_ext, rejected_at) {
        out.viol("C30/hook-order", format!("{e}; query: {query}; faults: {faults_desc}; trace: {:?}", ext.hooks));
    } else if rejected_at.is_none() && !faulty {
        // exact resolve coverage on fault-free runs: every resolved field and list element, once
        let mut expect: Vec<String> = started_paths(&ext.log).into_iter().collect();
        expect.extend(list_item_paths(&data_of(&r1)));
        expect.sort();
        expect.dedup();
        for i in 0..n_ext {
            let mut got: Vec<String> = ext.hooks.iter().filter_map(|h| h.strip_prefix(">resolve:")).filter_map(|r| r.rsplit_once('#')).filter(|(_, n)| *n == i.to_string()).map(|(p, _)| p.to_string()).collect();
            got.sort();
            if got != expect {
                let missing: Vec<&String> = expect.iter().filter(|p| !got.contains(p)).collect();
                let extra: Vec<&String> = got.iter().filter(|p| !expect.contains(p)).collect();
                out.viol("C30/resolve-hook-coverage", format!("extension {i}: resolve hook missing for {:?}, unexpected for {:?}; query: {query}", missing, extra));
                break;
            }
        }
    }
    if sim::verbose() {
        out.sample = Some(json!({"flavour": format!("{:?}", flavour), "extensions": n_ext, "query": query, "rejected_at": rejected_at, "faults": faults_desc,
            "response": r1, "hook_trace_len": ext.hooks.len(), "hook_trace_prefix": ext.hooks.iter().take(24).collect::<Vec<_>>()}));
    }
    out
}
