pub mod check;
pub mod minimise;
pub mod sim;
pub mod tape;
