//! C03 — a field error nulls only the nearest nullable position and is reported once.

use std::collections::BTreeMap;

use serde_json::{json, Value as J};

use super::{
    exec::*,
    qgen::{gen_operation, gen_subscription, GenCfg},
    world::{field_def, reset_world, world, Fault, RKind, Ret, SubItem, Ty},
};
use crate::core::{
    check::{CaseOut, CheckDef},
    sim::{self, draw, Params},
};

pub static DEF: CheckDef = CheckDef {
    id: "C03",
    variants: &["static-query", "dynamic-query", "static-mutation", "dynamic-mutation", "static-subscription", "dynamic-subscription"],
    run,
    quick_runs: 200_000,
    thorough_runs: 12_000_000,
    rule: "case = generated operation (depth<=4, <=18 fields, aliases, fragments, interface/union conditions, literal @skip/@include) over the harness type table (all wrappers of leaf and composite types, guarded fields, both static fallible idioms) + fault plan of 1-3 positions drawn from the positions resolved by a fault-free baseline run (resolver error, guard rejection; dynamic: invalid value, null for non-null, invalid list item) + a drawn schedule (latency profile, scheduling policy, event batching). Oracle: errors == exactly one (path, location) per failure that actually happened; data == baseline with null at the nearest nullable position at or above each failure. Non-trivial = at least one fault fired; distinct = distinct event-order hashes of the faulted execution.",
    real: &["async-graphql executor (static derive-generated and dynamic)", "parser", "validation", "futures-util joins"],
    stub: &["async runtime (simulator)", "resolvers, guards and subscription sources (harness, gated)"],
    assumptions: &["resolver latencies are drawn from small discrete sets so that ties are common", "failures are injected only at positions resolved by the fault-free baseline"],
    restrictions: &["subscription variants deliver one event at a time (C27 covers interleaved events)", "dynamic: invalid-value faults only where the library can recognise an invalid value (scalars, enums, lists, interface/union members)"],
    expected_probes: &["probe:two-resolvers-in-flight", "probe:resolver-cancelled-in-flight", "probe:failure-in-list-item", "probe:failure-propagated-to-ancestor", "probe:failure-nulls-whole-data"],
};

pub fn flavour_of(variant: usize) -> Flavour {
    if variant % 2 == 0 { Flavour::Static } else { Flavour::Dynamic }
}

/// Candidate kinds for a field position.
fn kinds_for(flavour: Flavour, parent: &str, field: &str) -> Vec<Fault> {
    let Some(def) = field_def(parent, field) else { return vec![Fault::ResolverError] };
    let mut v = vec![Fault::ResolverError];
    match flavour {
        Flavour::Static => {
            if def.guarded {
                v.push(Fault::GuardReject);
                v.push(Fault::GuardReject);
            }
        }
        Flavour::Dynamic => {
            let ty = Ty::parse(def.ty);
            if !ty.nullable() {
                v.push(Fault::NullForNonNull);
            }
            let is_list = matches!(ty.unwrap_nn(), Ty::List(_));
            if is_list || matches!(def.ret, Ret::Int | Ret::Color | Ret::Ent | Ret::Uni) {
                v.push(Fault::InvalidValue);
            }
        }
    }
    v
}

pub struct Plan {
    pub faults: BTreeMap<String, Fault>,
    pub item_faults: BTreeMap<String, Fault>,
}

/// Draw a fault plan over the positions of the baseline.
pub fn draw_plan(flavour: Flavour, base: &ExecLike, max_faults: u32, only_nullable_fields: bool) -> Plan {
    draw_plan_opt(flavour, base, max_faults, only_nullable_fields, true)
}

/// `guards`: whether guard rejections may be planted (a guard cannot tell which subscription event it
/// runs for, so plans for subscriptions leave them out).
pub fn draw_plan_opt(flavour: Flavour, base: &ExecLike, max_faults: u32, only_nullable_fields: bool, guards: bool) -> Plan {
    let fmap = field_map(&[&base.log]);
    let mut cands: Vec<(String, bool)> = fmap.keys().map(|p| (p.clone(), false)).collect();
    if !only_nullable_fields {
        for p in list_item_paths(&base.data) {
            // item faults only where an item can fail on its own: dynamic - where the library can
            // recognise an invalid item; static - lists whose items are `Result`s
            let field_path = strip_trailing_indices(&p);
            if let Some((parent, field, _, _)) = fmap.get(&field_path) {
                if let Some(def) = field_def(parent, field) {
                    let ok = match flavour {
                        Flavour::Dynamic => matches!(def.ret, Ret::Int | Ret::Ent | Ret::Uni),
                        Flavour::Static => super::world::STATIC_ITEM_FAULT_FIELDS.contains(&def.name),
                    };
                    if ok {
                        cands.push((p, true));
                    }
                }
            }
        }
    }
    let mut plan = Plan { faults: BTreeMap::new(), item_faults: BTreeMap::new() };
    if cands.is_empty() {
        return plan;
    }
    let n = 1 + draw(max_faults);
    for _ in 0..n {
        let (p, is_item) = cands[draw(cands.len() as u32) as usize].clone();
        if is_item {
            // at most one invalid item per list: with two, which of them the library evaluates is
            // its own business (the first one in a non-null list), and the harness cannot observe it
            let list = strip_trailing_indices(&p);
            if plan.item_faults.keys().any(|q| strip_trailing_indices(q) == list) {
                continue;
            }
            plan.item_faults.insert(p, Fault::InvalidValue);
        } else {
            let (parent, field, _, _) = &fmap[&p];
            if only_nullable_fields {
                let nullable = field_def(parent, field).map(|d| !d.ty.ends_with('!')).unwrap_or(false);
                if !nullable {
                    continue;
                }
            }
            let kinds = kinds_for(flavour, parent, field);
            let mut k = kinds[draw(kinds.len() as u32) as usize];
            if !guards && k == Fault::GuardReject {
                k = Fault::ResolverError;
            }
            // mass failure: now and then the same field fails in every item of the lists above it
            let wild = |q: &str| q.split('.').map(|s| if s.chars().all(|c| c.is_ascii_digit()) { "*" } else { s }).collect::<Vec<_>>().join(".");
            // (nullable fields only: every such failure is absorbed where it happens, so the plan stays
            // free of races between failures inside one non-null region)
            let field_nullable = field_def(parent, field).map(|d| !d.ty.ends_with('!')).unwrap_or(false);
            if field_nullable && p.split('.').any(|s| s.chars().all(|c| c.is_ascii_digit())) && sim::chance(1, 4) {
                let pat = wild(&p);
                let mut n_mass = 0;
                for q in fmap.keys() {
                    if wild(q) == pat {
                        plan.faults.insert(q.clone(), k);
                        n_mass += 1;
                    }
                }
                if n_mass > 30 {
                    sim::count("probe:mass-failure-over-30-positions");
                }
                if n_mass > 128 {
                    sim::count("probe:mass-failure-over-128-positions");
                }
            }
            plan.faults.insert(p, k);
        }
    }
    plan
}

fn strip_trailing_indices(p: &str) -> String {
    let mut segs: Vec<&str> = p.split('.').collect();
    while segs.last().map(|s| s.chars().all(|c| c.is_ascii_digit())).unwrap_or(false) {
        segs.pop();
    }
    segs.join(".")
}

/// What a baseline looks like to the planner/oracle (a request or one subscription event).
pub struct ExecLike {
    pub data: J,
    pub log: Vec<super::world::REvent>,
}

/// The model: expected (data, errors) for the failures that actually happened.
///
/// Field-level failures are observed by the harness (the resolver or guard returned the error).
/// An invalid list item is only *constructed* by the harness; whether the library evaluated it is
/// not observable, so it counts as happened if the response reports it, and otherwise must lie
/// inside a region nulled by a failure that did happen (the library legitimately stopped early).
pub fn expected(base: &ExecLike, faulted_log: &[super::world::REvent], root_types: &BTreeMap<String, Ty>, got_errs: &[(String, String)], strict_own: bool) -> Result<(J, Vec<(String, String)>), String> {
    // Always with the "in transit" rule: with more than 30 sibling futures futures-util's join polls
    // through a FuturesOrdered, so a second non-null sibling can have returned its error before the
    // join delivers the first one; which of two failures inside one non-null region is reported is a
    // race the property does not (and cannot) fix.
    //
    // `strict_own` narrows that tolerance: a failure of a field that is itself nullable is absorbed at
    // the field, in the poll in which its resolver (or guard) returned the error; nothing can pre-empt
    // it any more, so its error is required even if a later failure nulls an enclosing region. Callers
    // pass `true` only when nothing can suspend between the resolver and the field (no extensions, no
    // custom directive in the operation).
    expected_full(base, faulted_log, root_types, got_errs, true, strict_own)
}

/// `in_transit`: an error a resolver has returned may still be travelling (through a suspended
/// extension hook, or queued inside a large join) when a sibling's error cancels the region; such a
/// failure is treated like an unevaluated list item: optional if its effect lies inside a region
/// nulled by a failure that was reported.
pub fn expected_ext(base: &ExecLike, faulted_log: &[super::world::REvent], root_types: &BTreeMap<String, Ty>, got_errs: &[(String, String)], in_transit: bool) -> Result<(J, Vec<(String, String)>), String> {
    expected_full(base, faulted_log, root_types, got_errs, in_transit, false)
}

fn expected_full(base: &ExecLike, faulted_log: &[super::world::REvent], root_types: &BTreeMap<String, Ty>, got_errs: &[(String, String)], in_transit: bool, strict_own: bool) -> Result<(J, Vec<(String, String)>), String> {
    let fmap = field_map(&[&base.log, faulted_log]);
    let mut data = base.data.clone();
    let mut errs = vec![];
    let mut whole = false;
    let mut regions: Vec<String> = vec![];
    let all = failures(faulted_log);
    let (items, fields): (Vec<_>, Vec<_>) = all.into_iter().partition(|r| r.line == 0 && r.parent.is_empty());
    // fields first, then the items the response reports, then the unreported items
    let (rep, unrep): (Vec<_>, Vec<_>) = items.into_iter().partition(|r| got_errs.iter().any(|(p, _)| *p == r.path));
    let (frep, funrep): (Vec<_>, Vec<_>) = if in_transit {
        fields.into_iter().partition(|r| {
            if got_errs.iter().any(|(p, _)| *p == r.path) {
                return true;
            }
            // a nullable field's own failure is settled at once (see `expected`)
            if strict_own {
                if let Some(types) = position_types(&r.path, &fmap, root_types) {
                    if null_position(&r.path, &types).as_deref() == Some(r.path.as_str()) {
                        sim::count("probe:own-nullable-failure-required");
                        return true;
                    }
                }
            }
            false
        })
    } else {
        (fields, vec![])
    };
    let mut ordered = frep;
    ordered.extend(rep);
    let optional_from = ordered.len();
    ordered.extend(funrep);
    ordered.extend(unrep);
    let mut idx = 0usize;
    for r in ordered {
        let is_item = (r.line == 0 && r.parent.is_empty()) || (in_transit && idx >= optional_from);
        idx += 1;
        let types = position_types(&r.path, &fmap, root_types).ok_or_else(|| format!("cannot type path {}", r.path))?;
        // location: the failing field's position (for list items: the list field's)
        let fpath = strip_trailing_indices(&r.path);
        let (line, col) = if r.line > 0 {
            (r.line, r.col)
        } else {
            let e = fmap.get(&fpath).ok_or_else(|| format!("no field for {}", r.path))?;
            (e.2, e.3)
        };
        if is_item {
            let reported = got_errs.iter().any(|(p, _)| *p == r.path);
            let pre_empted = whole || regions.iter().any(|reg| r.path == *reg || r.path.starts_with(&format!("{reg}.")));
            if !reported && pre_empted {
                sim::count("probe:item-failure-pre-empted");
                continue;
            }
        }
        errs.push((r.path.clone(), format!("{line}:{col}")));
        match null_position(&r.path, &types) {
            Some(p) => {
                if p != r.path {
                    sim::count("probe:failure-propagated-to-ancestor");
                }
                if p.rsplit('.').next().map(|s| s.chars().all(|c| c.is_ascii_digit())).unwrap_or(false) {
                    sim::count("probe:failure-in-list-item");
                }
                set_null(&mut data, &p);
                regions.push(p);
            }
            None => {
                sim::count("probe:failure-nulls-whole-data");
                whole = true
            }
        }
    }
    if whole {
        data = J::Null;
    }
    errs.sort();
    Ok((data, errs))
}

fn lat_profile() -> u32 {
    // 0 = all ready at once (what the test-suite sees) .. 3 = wide
    [1u32, 0, 2, 3][draw(4) as usize]
}

fn run(variant: usize) -> CaseOut {
    let mut out = CaseOut::default();
    reset_world();
    let flavour = flavour_of(variant);
    match variant {
        0..=3 => {
            let op = if variant < 2 { "query" } else { "mutation" };
            let query = gen_operation(op, GenCfg::default().for_flavour(flavour == Flavour::Static));
            // baseline: fault-free, everything ready at once, FIFO
            set_latency(0, 0);
            let base = run_request("baseline", flavour, 0, &query, Some(Params::default()));
            let Some(base_resp) = base.resp else {
                out.viol("C03/stall", format!("baseline did not complete: {query}"));
                return out;
            };
            if base_resp.get("errors").is_some() {
                sim::count("discard:baseline-has-errors");
                out.discarded = true;
                if sim::verbose() {
                    out.sample = Some(json!({"query": query, "discarded": base_resp}));
                }
                return out;
            }
            let basel = ExecLike { data: data_of(&base_resp), log: base.log };
            let plan = draw_plan(flavour, &basel, 3, false);
            set_plan(&plan.faults, &plan.item_faults);
            set_latency(draw(1 << 16) as u64, lat_profile());
            let params = sim::draw_params();
            let run = run_request("faulted", flavour, 0, &query, Some(params));
            let faults_desc = describe_faults();
            let Some(resp) = run.resp else {
                out.viol("C03/stall", format!("request did not complete ({:?}); query: {query}; faults: {faults_desc}", run.end));
                return out;
            };
            let fired = failures(&run.log).len();
            out.nontrivial = fired > 0;
            let got_errs = error_set(&resp);
            let strict_own = !query.contains("@noop");
            match expected(&basel, &run.log, &BTreeMap::new(), &got_errs, strict_own) {
                Err(e) => {
                    sim::count("discard:unattributable");
                    sim::log(format!("unattributable: {e}"));
                    out.discarded = true;
                }
                Ok((exp_data, exp_errs)) => {
                    let got_data = data_of(&resp);
                    if got_errs != exp_errs {
                        out.viol(
                            "C03/errors-mismatch",
                            format!("errors (path, location) expected {:?} got {:?}; query: {query}; faults: {faults_desc}; response: {resp}", exp_errs, got_errs),
                        );
                    } else if got_data != exp_data {
                        out.viol("C03/data-mismatch", format!("data expected {exp_data} got {got_data}; query: {query}; faults: {faults_desc}; errors: {:?}", got_errs));
                    }
                }
            }
            if sim::verbose() {
                out.sample = Some(json!({"flavour": format!("{:?}", flavour), "query": query, "faults": faults_desc, "failures_fired": fired, "response": resp}));
            }
        }
        _ => run_subscription(flavour, &mut out),
    }
    out
}

/// Subscription variant: one root field, events delivered one at a time.
fn run_subscription(flavour: Flavour, out: &mut CaseOut) {
    let (query, roots) = gen_subscription(GenCfg { max_fields: 10, ..GenCfg::default() }.for_flavour(flavour == Flavour::Static), 1, false);
    let (key, field, _) = roots[0].clone();
    let n_events = 1 + draw(2);
    let mut events = vec![];
    for i in 0..n_events {
        events.push(SubEvent { at: 10 + 100_000 * i as u64, ch: 0, item: Some(SubItem::Node(100 + i as i32)) });
    }
    events.push(SubEvent { at: 10 + 100_000 * n_events as u64, ch: 0, item: None });
    set_latency(0, 0);
    let base = run_stream("baseline", flavour, 0, &query, Some(Params::default()), 1, &events, 0);
    if !base.ended || base.responses.len() != n_events as usize {
        out.viol("C03/stall", format!("baseline stream: {} responses, ended={}; query: {query}", base.responses.len(), base.ended));
        return;
    }
    if base.responses.iter().any(|r| r.get("errors").is_some()) {
        sim::count("discard:baseline-has-errors");
        out.discarded = true;
        return;
    }
    // faults: positions of the first event's baseline (same paths in every event)
    let basel = ExecLike { data: data_of(&base.responses[0]), log: base.log.clone() };
    let plan = draw_plan_opt(flavour, &basel, 2, false, false);
    set_plan(&plan.faults, &plan.item_faults);
    set_latency(draw(1 << 16) as u64, [1u32, 0, 2][draw(3) as usize]);
    let params = sim::draw_params();
    let run = run_stream("faulted", flavour, 0, &query, Some(params), 1, &events, 0);
    let faults_desc = describe_faults();
    // a stream may end after a response that carries errors (the dynamic flavour does); anything
    // else must produce one response per event
    let ended_on_error = run.responses.last().map(|r| r.get("errors").is_some()).unwrap_or(false);
    if !run.ended || run.responses.len() > n_events as usize || (run.responses.len() < n_events as usize && !ended_on_error) {
        out.viol("C03/stall", format!("stream: {} responses of {n_events}, ended={}; query: {query}; faults: {faults_desc}", run.responses.len(), run.ended));
        return;
    }
    let root_ty = Ty::parse(field_def("Subscription", &field).unwrap().ty);
    let mut root_types = BTreeMap::new();
    root_types.insert(key.clone(), root_ty);
    // per event: split logs by node ancestry is not needed — events are sequential, so split the log
    // at each response boundary using the event's node id range
    let mut answered: std::collections::BTreeSet<usize> = Default::default();
    for resp in run.responses.iter() {
        // which event does this response answer? by the id it carries, else the first unanswered one
        // (events of one root field need not be resolved strictly one after the other)
        let by_id = data_of(resp)[&key]["id"].as_i64().map(|v| (v - 100) as usize).filter(|i| *i < n_events as usize && !answered.contains(i));
        let Some(i) = by_id.or_else(|| (0..n_events as usize).find(|i| !answered.contains(i))) else {
            out.viol("C03/stall", format!("more responses than events; query: {query}"));
            return;
        };
        answered.insert(i);
        let base_i = ExecLike { data: data_of(&base.responses[i]), log: base.log.clone() };
        // events are strictly sequential here: failures of event i are those logged between
        // response i-1 and response i; the log carries no marker, so attribute by order: count
        // the failures per path across events instead
        let fl: Vec<super::world::REvent> = run.log.iter().filter(|e| e.ev == 100 + i as i32).cloned().collect();
        out.nontrivial |= !failures(&fl).is_empty();
        let got_errs = error_set(resp);
        match expected(&base_i, &fl, &root_types, &got_errs, !query.contains("@noop")) {
            Err(e) => {
                sim::log(format!("unattributable: {e}"));
                out.discarded = true;
            }
            Ok((exp_data, exp_errs)) => {
                let got_data = data_of(resp);
                if got_errs != exp_errs {
                    out.viol("C03/errors-mismatch", format!("event {i}: errors expected {:?} got {:?}; query: {query}; faults: {faults_desc}; response: {resp}", exp_errs, got_errs));
                } else if got_data != exp_data {
                    out.viol("C03/data-mismatch", format!("event {i}: data expected {exp_data} got {got_data}; query: {query}; faults: {faults_desc}"));
                }
            }
        }
    }
    if sim::verbose() {
        out.sample = Some(json!({"flavour": format!("{:?}", flavour), "query": query, "events": n_events, "faults": faults_desc, "responses": run.responses}));
    }
}

/// The resolver log of the i-th event of a sequential single-root subscription: the consumer
/// marks the log each time it receives a response.
fn split_event_log(log: &[super::world::REvent], _key: &str, i: usize) -> Vec<super::world::REvent> {
    let mut chunks: Vec<Vec<super::world::REvent>> = vec![vec![]];
    for e in log {
        if e.kind == RKind::Response {
            chunks.push(vec![]);
        } else {
            chunks.last_mut().unwrap().push(e.clone());
        }
    }
    chunks.get(i).cloned().unwrap_or_default()
}

#[allow(dead_code)]
fn _w() {
    let _ = world(|w| w.lat_seed);
}
