#!/bin/bash
# Confirm an independently seeded change: demo passes without it, fails with it, existing suite passes with it.
#   ./confirm_seeded.sh <seeded-id> [features]   (reads /verif/seeded/<id>/{patch.diff,demo.rs})
set -u
id="$1"; feat="${2:-}"
S=/verif/seeded/$id
W=/tmp/wt-confirm
[ -d "$W" ] || git -C /repo worktree add -q "$W" HEAD
cd "$W" && git checkout -q -- . && rm -f tests/seeded_*.rs
export CARGO_TARGET_DIR=$W/target
demo=$(ls $S/*.rs | head -1); name=$(basename "$demo" .rs)
cp "$demo" tests/
echo "== demo WITHOUT the change"
cargo test --offline $feat --test "$name" 2>&1 | grep -E "^test result|^test .*(ok|FAILED)|error(\[|:)" | head -20
git apply "$S/patch.diff" || { echo "patch does not apply"; exit 2; }
echo "== demo WITH the change"
cargo test --offline $feat --test "$name" 2>&1 | grep -E "^test result|^test .*(ok|FAILED)|panicked|error(\[|:)" | head -20
rm -f tests/$name.rs
echo "== existing suite WITH the change"
cargo nextest run --workspace --no-fail-fast --test-threads 8 --offline 2>&1 | grep -E "Summary|FAIL|error(\[|:)" | head -20
git checkout -q -- . ; rm -f tests/seeded_*.rs
