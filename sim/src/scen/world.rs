//! The harness type system, written twice from one table: with the derive macros (static) and with
//! `dynamic::Schema`.  Resolvers are gated by the simulator and consult a per-run fault plan.

use std::{cell::RefCell, collections::BTreeMap, sync::OnceLock};

use async_graphql::{
    dynamic as d, Context, EmptySubscription, Enum, Error, Guard, Interface, Name, Object, Result, Schema, Subscription, Union, Value,
};
use futures_util::{Stream, StreamExt};

use crate::core::{
    sim::{self, ChanRx},
    tape::{hash_str, mix},
};

// ------------------------------------------------------------------------------------------------
// type table

#[derive(Clone, Copy, PartialEq, Eq, Debug)]
pub enum Ret {
    Int,
    Color,
    Node,
    Leaf,
    Ent,
    Uni,
}

#[derive(Clone, Copy, PartialEq, Eq, Debug)]
pub enum Idiom {
    /// static: `Result<T>` / `Result<Option<T>>`
    Res,
    /// static: `Option<Result<T>>`
    OptRes,
}

#[derive(Clone, Copy, Debug)]
pub struct FDef {
    pub name: &'static str,
    pub ty: &'static str,
    pub ret: Ret,
    pub idiom: Idiom,
    pub guarded: bool,
    pub arg: bool,
    pub salt: u32,
}

const fn f(name: &'static str, ty: &'static str, ret: Ret, idiom: Idiom, guarded: bool, arg: bool, salt: u32) -> FDef {
    FDef { name, ty, ret, idiom, guarded, arg, salt }
}

pub const NODE_FIELDS: &[FDef] = &[
    f("id", "Int!", Ret::Int, Idiom::Res, false, false, 1),
    f("v", "Int", Ret::Int, Idiom::OptRes, false, false, 2),
    f("w", "Int", Ret::Int, Idiom::Res, false, false, 3),
    f("req", "Int!", Ret::Int, Idiom::Res, false, false, 4),
    f("g", "Int", Ret::Int, Idiom::Res, true, false, 5),
    f("gReq", "Int!", Ret::Int, Idiom::Res, true, false, 6),
    f("tag", "Color", Ret::Color, Idiom::Res, false, false, 7),
    f("tagReq", "Color!", Ret::Color, Idiom::Res, false, false, 8),
    f("echo", "Int", Ret::Int, Idiom::Res, false, true, 9),
    f("kid", "Node", Ret::Node, Idiom::Res, false, false, 10),
    f("kidA", "Node", Ret::Node, Idiom::OptRes, false, false, 11),
    f("kidReq", "Node!", Ret::Node, Idiom::Res, false, false, 12),
    f("kids", "[Node]", Ret::Node, Idiom::Res, false, false, 13),
    f("kidsReq", "[Node!]!", Ret::Node, Idiom::Res, false, false, 14),
    f("kidsNnItems", "[Node!]", Ret::Node, Idiom::Res, false, false, 15),
    f("kidsNnList", "[Node]!", Ret::Node, Idiom::Res, false, false, 16),
    f("grid", "[[Node]]", Ret::Node, Idiom::Res, false, false, 17),
    f("vals", "[Int]", Ret::Int, Idiom::Res, false, false, 18),
    f("valsReq", "[Int!]!", Ret::Int, Idiom::Res, false, false, 19),
    f("ent", "Ent", Ret::Ent, Idiom::Res, false, false, 20),
    f("ents", "[Ent!]", Ret::Ent, Idiom::Res, false, false, 21),
    f("uni", "Uni", Ret::Uni, Idiom::OptRes, false, false, 22),
    f("unis", "[Uni]", Ret::Uni, Idiom::Res, false, false, 23),
    f("leaf", "Leaf", Ret::Leaf, Idiom::Res, false, false, 24),
    f("ritems", "[Int]", Ret::Int, Idiom::Res, false, false, 25),
    f("ritemsReq", "[Int!]!", Ret::Int, Idiom::Res, false, false, 26),
    f("matrix", "[[Int!]]", Ret::Int, Idiom::Res, false, false, 40),
    // more than 30 items: futures-util's join switches from its small-set variant to FuturesOrdered
    f("crowd", "[Node]", Ret::Node, Idiom::Res, false, false, 27),
];

/// static fields whose list items are `Result`s and can fail one by one
pub const STATIC_ITEM_FAULT_FIELDS: &[&str] = &["ritems", "ritemsReq"];

pub const LEAF_FIELDS: &[FDef] = &[
    f("id", "Int!", Ret::Int, Idiom::Res, false, false, 1),
    f("v", "Int", Ret::Int, Idiom::OptRes, false, false, 2),
    f("w", "Int", Ret::Int, Idiom::Res, false, false, 3),
    f("req", "Int!", Ret::Int, Idiom::Res, false, false, 4),
];

/// fields declared by the interface Ent
pub const ENT_FIELDS: &[&str] = &["id", "w", "req"];

pub const SUB_FIELDS: &[FDef] = &[
    f("events", "Node!", Ret::Node, Idiom::Res, false, true, 31),
    f("eventsOpt", "Node", Ret::Node, Idiom::Res, false, true, 32),
    f("ticks", "Int!", Ret::Int, Idiom::Res, false, true, 33),
];

pub fn fields_of(type_name: &str) -> &'static [FDef] {
    match type_name {
        "Node" | "Query" | "Mutation" => NODE_FIELDS,
        "Leaf" => LEAF_FIELDS,
        "Subscription" => SUB_FIELDS,
        _ => &[],
    }
}

pub fn field_def(type_name: &str, field: &str) -> Option<&'static FDef> {
    fields_of(type_name).iter().find(|f| f.name == field)
}

/// A parsed type reference.
#[derive(Clone, Debug, PartialEq, Eq)]
pub enum Ty {
    Named(String),
    List(Box<Ty>),
    NonNull(Box<Ty>),
}

impl Ty {
    pub fn parse(s: &str) -> Ty {
        if let Some(inner) = s.strip_suffix('!') {
            return Ty::NonNull(Box::new(Ty::parse(inner)));
        }
        if let Some(inner) = s.strip_prefix('[').and_then(|s| s.strip_suffix(']')) {
            return Ty::List(Box::new(Ty::parse(inner)));
        }
        Ty::Named(s.to_string())
    }
    pub fn nullable(&self) -> bool {
        !matches!(self, Ty::NonNull(_))
    }
    /// the type without an outer NonNull
    pub fn unwrap_nn(&self) -> &Ty {
        match self {
            Ty::NonNull(t) => t,
            t => t,
        }
    }
    pub fn item(&self) -> Option<&Ty> {
        match self.unwrap_nn() {
            Ty::List(t) => Some(t),
            _ => None,
        }
    }
    pub fn named(&self) -> &str {
        match self {
            Ty::Named(n) => n,
            Ty::List(t) | Ty::NonNull(t) => t.named(),
        }
    }
    fn to_dyn(&self) -> d::TypeRef {
        match self {
            Ty::Named(n) => d::TypeRef::Named(n.clone().into()),
            Ty::List(t) => d::TypeRef::List(Box::new(t.to_dyn())),
            Ty::NonNull(t) => d::TypeRef::NonNull(Box::new(t.to_dyn())),
        }
    }
}

// ------------------------------------------------------------------------------------------------
// per-run world: fault plan, latencies, resolver log

#[derive(Clone, Copy, PartialEq, Eq, Debug)]
pub enum Fault {
    /// the resolver returns an error
    ResolverError,
    /// the guard of the field rejects (static; on unguarded fields and in dynamic schemas it is a resolver error)
    GuardReject,
    /// dynamic: the resolver yields nothing for a non-null type
    NullForNonNull,
    /// dynamic: the resolver yields a value that is invalid for the type
    InvalidValue,
}

#[derive(Clone, Debug, PartialEq, Eq)]
pub enum RKind {
    Start,
    Finish,
    Failed(Fault),
    Dropped,
    /// marker: the consumer received a response
    Response,
}

#[derive(Clone, Debug)]
pub struct REvent {
    pub seq: usize,
    pub kind: RKind,
    pub path: String,
    pub parent: String,
    pub field: String,
    pub line: usize,
    pub col: usize,
    pub node_id: i32,
    pub ev: i32,
}

#[derive(Default)]
pub struct World {
    pub faults: BTreeMap<String, Fault>,
    /// faults placed on list items (dynamic only): path of the item -> invalid
    pub item_faults: BTreeMap<String, Fault>,
    /// per-event faults (subscriptions): (event, path) -> fault
    pub ev_faults: BTreeMap<(i32, String), Fault>,
    pub lat_seed: u64,
    /// 0: every resolver is ready at once; 1: {0,1,2,3}; 2: {0,1,2,5,20,1000}
    pub lat_profile: u32,
    pub log: Vec<REvent>,
    pub inflight: usize,
    pub max_inflight: usize,
    pub channels: BTreeMap<i32, ChanRx<SubItem>>,
    /// extension hook trace
    pub hooks: Vec<String>,
    pub ext_gates: bool,
    /// subscription-level faults: channel -> fail at creation
    pub sub_create_fail: BTreeMap<i32, bool>,
}

#[derive(Clone, Debug)]
pub enum SubItem {
    Node(i32),
    Null,
    Err(i32),
}

thread_local! {
    pub static WORLD: RefCell<World> = RefCell::new(World::default());
}

pub fn world<R>(f: impl FnOnce(&mut World) -> R) -> R {
    WORLD.with(|w| f(&mut w.borrow_mut()))
}

pub fn reset_world() {
    let old = world(std::mem::take);
    drop(old);
}

/// Clear the per-execution parts (log, counters) but keep the plan.
pub fn begin_world_exec() {
    let old = world(|w| {
        w.inflight = 0;
        w.hooks.clear();
        (std::mem::take(&mut w.log), std::mem::take(&mut w.channels))
    });
    drop(old);
}

pub fn latency_for(key: &str) -> u64 {
    let (seed, profile) = world(|w| (w.lat_seed, w.lat_profile));
    let h = mix(seed, hash_str(key));
    match profile {
        0 => 0,
        1 => [0u64, 1, 2, 3][(h % 4) as usize],
        2 => [1u64, 1, 2, 2, 3, 5][(h % 6) as usize],
        _ => [0u64, 1, 2, 5, 20, 1000][(h % 6) as usize],
    }
}

pub fn push_event(kind: RKind, path: &str, parent: &str, field: &str, pos: (usize, usize), node: NodeData) {
    let line = format!("res {:?} {} ({}.{})", kind, path, parent, field);
    world(|w| {
        let seq = w.log.len();
        w.log.push(REvent { seq, kind, path: path.to_string(), parent: parent.to_string(), field: field.to_string(), line: pos.0, col: pos.1, node_id: node.id, ev: node.ev });
    });
    sim::log_order(line);
}

struct DropGuard {
    armed: bool,
    path: String,
    parent: String,
    field: String,
    pos: (usize, usize),
    node: NodeData,
}

impl Drop for DropGuard {
    fn drop(&mut self) {
        if self.armed {
            world(|w| w.inflight = w.inflight.saturating_sub(1));
            push_event(RKind::Dropped, &self.path, &self.parent, &self.field, self.pos, self.node);
            sim::count("probe:resolver-cancelled-in-flight");
        }
    }
}

pub fn path_of(ctx: &Context<'_>) -> String {
    match ctx.path_node.as_ref() {
        Some(p) => p.to_string(),
        None => String::new(),
    }
}

/// The body shared by every harness resolver: log, wait for the gate, consult the fault plan.
pub async fn enter(ctx: &Context<'_>, parent: &str, field: &str, node: NodeData) -> Option<Fault> {
    let path = path_of(ctx);
    let pos = (ctx.item.pos.line, ctx.item.pos.column);
    push_event(RKind::Start, &path, parent, field, pos, node);
    let n = world(|w| {
        w.inflight += 1;
        w.max_inflight = w.max_inflight.max(w.inflight);
        w.inflight
    });
    sim::note_inflight(n);
    if n >= 2 {
        sim::count("probe:two-resolvers-in-flight");
    }
    let mut guard = DropGuard { armed: true, path: path.clone(), parent: parent.to_string(), field: field.to_string(), pos, node };
    sim::gate(latency_for(&path)).await;
    guard.armed = false;
    world(|w| w.inflight = w.inflight.saturating_sub(1));
    // a guard rejection is decided by the guard (static, guarded fields); when the plan entry reaches
    // a resolver (unguarded field, dynamic flavour) it degrades to a resolver error
    let fault = match world(|w| w.faults.get(&path).cloned().or_else(|| w.ev_faults.get(&(node.ev, path.clone())).cloned())) {
        Some(Fault::GuardReject) => Some(Fault::ResolverError),
        f => f,
    };
    match fault {
        Some(Fault::ResolverError) => {
            push_event(RKind::Failed(Fault::ResolverError), &path, parent, field, pos, node);
            sim::count("fault:resolver-error");
            Some(Fault::ResolverError)
        }
        Some(other) => {
            // decided by the caller (dynamic flavours); logged there
            Some(other)
        }
        None => {
            push_event(RKind::Finish, &path, parent, field, pos, node);
            None
        }
    }
}

pub fn note_failed(ctx: &Context<'_>, parent: &str, field: &str, node: NodeData, fault: Fault) {
    let path = path_of(ctx);
    let pos = (ctx.item.pos.line, ctx.item.pos.column);
    push_event(RKind::Failed(fault), &path, parent, field, pos, node);
    sim::count(match fault {
        Fault::NullForNonNull => "fault:null-for-non-null",
        Fault::InvalidValue => "fault:invalid-value",
        Fault::GuardReject => "fault:guard-reject",
        Fault::ResolverError => "fault:resolver-error",
    });
}

fn err(fault: Fault, _path: &str) -> Error {
    // the same text for every failure of a kind (as a real resolver would produce): no oracle looks at
    // messages, and code that wrongly keys errors by message must not be helped by unique texts
    Error::new(format!("injected {:?}", fault))
}

pub struct PlanGuard;

impl Guard for PlanGuard {
    async fn check(&self, ctx: &Context<'_>) -> Result<()> {
        let path = path_of(ctx);
        sim::gate(latency_for(&format!("{path}#guard"))).await;
        if world(|w| w.faults.get(&path) == Some(&Fault::GuardReject)) {
            let field = ctx.item.node.name.node.to_string();
            note_failed(ctx, "?", &field, NodeData { id: -1, ev: -1 }, Fault::GuardReject);
            return Err(err(Fault::GuardReject, &path));
        }
        Ok(())
    }
}

// ------------------------------------------------------------------------------------------------
// data model (shared by both flavours)

#[derive(Clone, Copy, Debug)]
pub struct NodeData {
    pub id: i32,
    /// subscription event this object belongs to (0 for queries and mutations)
    pub ev: i32,
}

fn h(id: i32, salt: u32) -> u32 {
    (mix(id as u64 ^ 0xabcd_0000, salt as u64) >> 40) as u32
}

impl NodeData {
    pub fn int(&self, salt: u32) -> i32 {
        (h(self.id, salt) % 997) as i32
    }
    pub fn natural_null(&self, salt: u32) -> bool {
        h(self.id, salt + 900) % 7 == 0
    }
    pub fn child(&self, salt: u32, idx: u32) -> NodeData {
        NodeData { id: (h(self.id, salt * 64 + idx + 1) % 50_000) as i32 + 2, ev: self.ev }
    }
    pub fn len(&self, salt: u32) -> u32 {
        if salt == 27 {
            // "crowd": more than 30 items, and for one node in eight more than 128
            if h(self.id, salt + 900) % 8 == 0 {
                return 130 + h(self.id, salt + 700) % 40;
            }
            return 31 + h(self.id, salt + 700) % 4;
        }
        h(self.id, salt + 700) % 4
    }
    /// Items of lists with nullable composite items (`kids`, `kidsNnList`, `unis`) are now and then null
    /// (static flavour only: a dynamic resolver has no way to hand back a null item of an object or
    /// union type - `FieldValue::NULL` there means "an object whose parent value is null").
    pub fn item_null(&self, salt: u32, idx: u32) -> bool {
        matches!(salt, 13 | 16 | 23) && h(self.id, salt * 64 + idx + 900) % 5 == 0
    }
    pub fn is_node(&self, salt: u32, idx: u32) -> bool {
        h(self.id, salt * 64 + idx + 500) % 2 == 0
    }
    pub fn color(&self, salt: u32) -> Color {
        match h(self.id, salt) % 3 {
            0 => Color::Red,
            1 => Color::Green,
            _ => Color::Blue,
        }
    }
}

#[derive(Enum, Copy, Clone, Eq, PartialEq, Debug)]
pub enum Color {
    Red,
    Green,
    Blue,
}

// ------------------------------------------------------------------------------------------------
// static flavour

pub struct Node(pub NodeData);
pub struct Leaf(pub NodeData);
pub struct Query;
pub struct Mutation;

pub trait HasData {
    fn data(&self) -> NodeData;
}
impl HasData for Node {
    fn data(&self) -> NodeData {
        self.0
    }
}
impl HasData for Leaf {
    fn data(&self) -> NodeData {
        self.0
    }
}
impl HasData for Query {
    fn data(&self) -> NodeData {
        NodeData { id: 1, ev: 0 }
    }
}
impl HasData for Mutation {
    fn data(&self) -> NodeData {
        NodeData { id: 1, ev: 0 }
    }
}

#[derive(Interface)]
#[graphql(field(name = "id", ty = "i32"), field(name = "w", ty = "Option<i32>"), field(name = "req", ty = "i32"))]
pub enum Ent {
    Node(Node),
    Leaf(Leaf),
}

#[derive(Union)]
pub enum Uni {
    Node(Node),
    Leaf(Leaf),
}

async fn run(ctx: &Context<'_>, parent: &'static str, field: &'static str, d: NodeData) -> Result<()> {
    match enter(ctx, parent, field, d).await {
        Some(Fault::ResolverError) => Err(err(Fault::ResolverError, &path_of(ctx))),
        Some(_) => {
            // the static flavour only knows resolver errors
            note_failed(ctx, parent, field, d, Fault::ResolverError);
            Err(err(Fault::ResolverError, &path_of(ctx)))
        }
        None => Ok(()),
    }
}

/// One `Result` item of a static list: fails if the plan holds an item fault for its path.
fn static_item(d: NodeData, salt: u32, i: u32, list_path: &str, field: &str) -> Result<i32> {
    let ipath = format!("{list_path}.{i}");
    if world(|w| w.item_faults.contains_key(&ipath)) {
        sim::count("fault:list-item-error");
        world(|w| {
            let seq = w.log.len();
            w.log.push(REvent { seq, kind: RKind::Failed(Fault::ResolverError), path: ipath.clone(), parent: String::new(), field: field.to_string(), line: 0, col: 0, node_id: d.id, ev: d.ev });
        });
        return Err(err(Fault::ResolverError, &ipath));
    }
    Ok(d.int(salt * 8 + i))
}

fn mk_ent(d: NodeData, salt: u32, idx: u32) -> Ent {
    let c = d.child(salt, idx);
    if d.is_node(salt, idx) { Ent::Node(Node(c)) } else { Ent::Leaf(Leaf(c)) }
}

fn mk_uni(d: NodeData, salt: u32, idx: u32) -> Uni {
    let c = d.child(salt, idx);
    if d.is_node(salt, idx) { Uni::Node(Node(c)) } else { Uni::Leaf(Leaf(c)) }
}

macro_rules! node_fields {
    ($T:ident, $name:literal) => {
        #[Object(name = $name)]
        impl $T {
            async fn id(&self, ctx: &Context<'_>) -> Result<i32> {
                run(ctx, $name, "id", self.data()).await?;
                Ok(self.data().id)
            }
            async fn v(&self, ctx: &Context<'_>) -> Option<Result<i32>> {
                let d = self.data();
                match run(ctx, $name, "v", d).await {
                    Err(e) => Some(Err(e)),
                    Ok(()) => if d.natural_null(2) { None } else { Some(Ok(d.int(2))) },
                }
            }
            async fn w(&self, ctx: &Context<'_>) -> Result<Option<i32>> {
                let d = self.data();
                run(ctx, $name, "w", d).await?;
                Ok(if d.natural_null(3) { None } else { Some(d.int(3)) })
            }
            async fn req(&self, ctx: &Context<'_>) -> Result<i32> {
                let d = self.data();
                run(ctx, $name, "req", d).await?;
                Ok(d.int(4))
            }
            #[graphql(guard = "PlanGuard")]
            async fn g(&self, ctx: &Context<'_>) -> Result<Option<i32>> {
                let d = self.data();
                run(ctx, $name, "g", d).await?;
                Ok(Some(d.int(5)))
            }
            #[graphql(guard = "PlanGuard")]
            async fn g_req(&self, ctx: &Context<'_>) -> Result<i32> {
                let d = self.data();
                run(ctx, $name, "gReq", d).await?;
                Ok(d.int(6))
            }
            async fn tag(&self, ctx: &Context<'_>) -> Result<Option<Color>> {
                let d = self.data();
                run(ctx, $name, "tag", d).await?;
                Ok(if d.natural_null(7) { None } else { Some(d.color(7)) })
            }
            async fn tag_req(&self, ctx: &Context<'_>) -> Result<Color> {
                let d = self.data();
                run(ctx, $name, "tagReq", d).await?;
                Ok(d.color(8))
            }
            async fn echo(&self, ctx: &Context<'_>, n: i32) -> Result<Option<i32>> {
                let d = self.data();
                run(ctx, $name, "echo", d).await?;
                Ok(Some(n))
            }
            async fn kid(&self, ctx: &Context<'_>) -> Result<Option<Node>> {
                let d = self.data();
                run(ctx, $name, "kid", d).await?;
                Ok(if d.natural_null(10) { None } else { Some(Node(d.child(10, 0))) })
            }
            async fn kid_a(&self, ctx: &Context<'_>) -> Option<Result<Node>> {
                let d = self.data();
                match run(ctx, $name, "kidA", d).await {
                    Err(e) => Some(Err(e)),
                    Ok(()) => if d.natural_null(11) { None } else { Some(Ok(Node(d.child(11, 0)))) },
                }
            }
            async fn kid_req(&self, ctx: &Context<'_>) -> Result<Node> {
                let d = self.data();
                run(ctx, $name, "kidReq", d).await?;
                Ok(Node(d.child(12, 0)))
            }
            async fn kids(&self, ctx: &Context<'_>) -> Result<Option<Vec<Option<Node>>>> {
                let d = self.data();
                run(ctx, $name, "kids", d).await?;
                Ok(Some((0..d.len(13)).map(|i| if d.item_null(13, i) { None } else { Some(Node(d.child(13, i))) }).collect()))
            }
            async fn kids_req(&self, ctx: &Context<'_>) -> Result<Vec<Node>> {
                let d = self.data();
                run(ctx, $name, "kidsReq", d).await?;
                Ok((0..d.len(14)).map(|i| Node(d.child(14, i))).collect())
            }
            async fn kids_nn_items(&self, ctx: &Context<'_>) -> Result<Option<Vec<Node>>> {
                let d = self.data();
                run(ctx, $name, "kidsNnItems", d).await?;
                Ok(Some((0..d.len(15)).map(|i| Node(d.child(15, i))).collect()))
            }
            async fn kids_nn_list(&self, ctx: &Context<'_>) -> Result<Vec<Option<Node>>> {
                let d = self.data();
                run(ctx, $name, "kidsNnList", d).await?;
                Ok((0..d.len(16)).map(|i| if d.item_null(16, i) { None } else { Some(Node(d.child(16, i))) }).collect())
            }
            async fn grid(&self, ctx: &Context<'_>) -> Result<Option<Vec<Option<Vec<Option<Node>>>>>> {
                let d = self.data();
                run(ctx, $name, "grid", d).await?;
                Ok(Some((0..d.len(17)).map(|i| Some((0..d.len(17 + i + 1).min(2)).map(|j| Some(Node(d.child(17, i * 4 + j)))).collect())).collect()))
            }
            async fn matrix(&self, ctx: &Context<'_>) -> Result<Option<Vec<Option<Vec<i32>>>>> {
                let d = self.data();
                run(ctx, $name, "matrix", d).await?;
                Ok(Some((0..d.len(40)).map(|i| Some((0..d.len(40 + i + 1).min(2)).map(|j| d.int(40 * 8 + i * 4 + j)).collect())).collect()))
            }
            async fn vals(&self, ctx: &Context<'_>) -> Result<Option<Vec<Option<i32>>>> {
                let d = self.data();
                run(ctx, $name, "vals", d).await?;
                Ok(Some((0..d.len(18)).map(|i| Some(d.int(18 * 8 + i))).collect()))
            }
            async fn vals_req(&self, ctx: &Context<'_>) -> Result<Vec<i32>> {
                let d = self.data();
                run(ctx, $name, "valsReq", d).await?;
                Ok((0..d.len(19)).map(|i| d.int(19 * 8 + i)).collect())
            }
            async fn ent(&self, ctx: &Context<'_>) -> Result<Option<Ent>> {
                let d = self.data();
                run(ctx, $name, "ent", d).await?;
                Ok(if d.natural_null(20) { None } else { Some(mk_ent(d, 20, 0)) })
            }
            async fn ents(&self, ctx: &Context<'_>) -> Result<Option<Vec<Ent>>> {
                let d = self.data();
                run(ctx, $name, "ents", d).await?;
                Ok(Some((0..d.len(21)).map(|i| mk_ent(d, 21, i)).collect()))
            }
            async fn uni(&self, ctx: &Context<'_>) -> Option<Result<Uni>> {
                let d = self.data();
                match run(ctx, $name, "uni", d).await {
                    Err(e) => Some(Err(e)),
                    Ok(()) => if d.natural_null(22) { None } else { Some(Ok(mk_uni(d, 22, 0))) },
                }
            }
            async fn unis(&self, ctx: &Context<'_>) -> Result<Option<Vec<Option<Uni>>>> {
                let d = self.data();
                run(ctx, $name, "unis", d).await?;
                Ok(Some((0..d.len(23)).map(|i| if d.item_null(23, i) { None } else { Some(mk_uni(d, 23, i)) }).collect()))
            }
            async fn leaf(&self, ctx: &Context<'_>) -> Result<Option<Leaf>> {
                let d = self.data();
                run(ctx, $name, "leaf", d).await?;
                Ok(if d.natural_null(24) { None } else { Some(Leaf(d.child(24, 0))) })
            }
            async fn ritems(&self, ctx: &Context<'_>) -> Result<Option<Vec<Option<Result<i32>>>>> {
                let d = self.data();
                run(ctx, $name, "ritems", d).await?;
                let path = path_of(ctx);
                Ok(Some((0..d.len(25)).map(|i| Some(static_item(d, 25, i, &path, "ritems"))).collect()))
            }
            async fn crowd(&self, ctx: &Context<'_>) -> Result<Option<Vec<Option<Node>>>> {
                let d = self.data();
                run(ctx, $name, "crowd", d).await?;
                Ok(Some((0..d.len(27)).map(|i| Some(Node(d.child(27, i)))).collect()))
            }
            async fn ritems_req(&self, ctx: &Context<'_>) -> Result<Vec<Result<i32>>> {
                let d = self.data();
                run(ctx, $name, "ritemsReq", d).await?;
                let path = path_of(ctx);
                Ok((0..d.len(26)).map(|i| static_item(d, 26, i, &path, "ritemsReq")).collect())
            }
        }
    };
}

node_fields!(Node, "Node");
node_fields!(Query, "Query");
node_fields!(Mutation, "Mutation");

#[Object(name = "Leaf")]
impl Leaf {
    async fn id(&self, ctx: &Context<'_>) -> Result<i32> {
        run(ctx, "Leaf", "id", self.0).await?;
        Ok(self.0.id)
    }
    async fn v(&self, ctx: &Context<'_>) -> Option<Result<i32>> {
        let d = self.0;
        match run(ctx, "Leaf", "v", d).await {
            Err(e) => Some(Err(e)),
            Ok(()) => if d.natural_null(2) { None } else { Some(Ok(d.int(2))) },
        }
    }
    async fn w(&self, ctx: &Context<'_>) -> Result<Option<i32>> {
        let d = self.0;
        run(ctx, "Leaf", "w", d).await?;
        Ok(if d.natural_null(3) { None } else { Some(d.int(3)) })
    }
    async fn req(&self, ctx: &Context<'_>) -> Result<i32> {
        let d = self.0;
        run(ctx, "Leaf", "req", d).await?;
        Ok(d.int(4))
    }
}

pub struct Sub;

fn take_channel(ch: i32) -> Option<ChanRx<SubItem>> {
    world(|w| w.channels.remove(&ch))
}

/// A stream item that is an error: the failure is at the root field's position of that event.
fn note_stream_item_error(path: &str, field: &str, pos: (usize, usize), ev: i32) {
    sim::count("fault:stream-item-error");
    push_event(RKind::Failed(Fault::ResolverError), path, "Subscription", field, pos, NodeData { id: ev, ev });
}

async fn sub_enter(ctx: &Context<'_>, field: &'static str, ch: i32) -> Result<ChanRx<SubItem>> {
    let path = path_of(ctx);
    sim::log_order(format!("sub create {path} ch={ch}"));
    sim::gate(latency_for(&format!("{path}#create"))).await;
    if world(|w| w.sub_create_fail.get(&ch).cloned().unwrap_or(false)) {
        sim::count("fault:stream-create-error");
        note_failed(ctx, "Subscription", field, NodeData { id: -1, ev: -1 }, Fault::ResolverError);
        return Err(Error::new(format!("injected stream-create-error at {path}")));
    }
    take_channel(ch).ok_or_else(|| Error::new("harness: no such channel"))
}

#[Subscription(name = "Subscription")]
impl Sub {
    async fn events(&self, ctx: &Context<'_>, ch: i32) -> Result<impl Stream<Item = Result<Node>> + use<>> {
        let rx = sub_enter(ctx, "events", ch).await?;
        let (path, pos) = (path_of(ctx), (ctx.item.pos.line, ctx.item.pos.column));
        Ok(rx.map(move |it| match it {
            SubItem::Node(id) => Ok(Node(NodeData { id, ev: id })),
            SubItem::Null => Err(Error::new("harness: null item on a non-null stream")),
            SubItem::Err(id) => {
                note_stream_item_error(&path, "events", pos, id);
                Err(Error::new("injected stream-item-error"))
            }
        }))
    }
    async fn events_opt(&self, ctx: &Context<'_>, ch: i32) -> Result<impl Stream<Item = Option<Result<Node>>> + use<>> {
        let rx = sub_enter(ctx, "eventsOpt", ch).await?;
        let (path, pos) = (path_of(ctx), (ctx.item.pos.line, ctx.item.pos.column));
        Ok(rx.map(move |it| match it {
            SubItem::Node(id) => Some(Ok(Node(NodeData { id, ev: id }))),
            SubItem::Null => None,
            SubItem::Err(id) => {
                note_stream_item_error(&path, "eventsOpt", pos, id);
                Some(Err(Error::new("injected stream-item-error")))
            }
        }))
    }
    async fn ticks(&self, ctx: &Context<'_>, ch: i32) -> Result<impl Stream<Item = i32> + use<>> {
        let rx = sub_enter(ctx, "ticks", ch).await?;
        Ok(rx.map(move |it| match it {
            SubItem::Node(id) | SubItem::Err(id) => id,
            SubItem::Null => 0,
        }))
    }
}

pub type StaticSchema = Schema<Query, Mutation, Sub>;

// ------------------------------------------------------------------------------------------------
// dynamic flavour

/// The same list as `dyn_value_for` builds, as one plain `Value::List` (the other way a dynamic
/// resolver may hand back a list of scalars), together with the item paths made invalid by the fault
/// plan: `null` where the item type is non-null, a number where a nested list is expected. `None` if
/// the list cannot be expressed that way (composite items, or a fault on a nullable scalar item).
fn dyn_plain_list(def: &FDef, ty: &Ty, d: NodeData, path: &str, depth: u32, idx: u32, faulted: &mut Vec<String>) -> Option<Value> {
    match ty {
        Ty::NonNull(inner) => dyn_plain_list(def, inner, d, path, depth, idx, faulted),
        Ty::List(inner) => {
            let n = if depth == 0 { d.len(def.salt) } else { d.len(def.salt + idx + 1).min(2) };
            let mut items = Vec::new();
            for i in 0..n {
                let ipath = format!("{path}.{i}");
                if world(|w| w.item_faults.contains_key(&ipath)) {
                    match &**inner {
                        Ty::NonNull(_) => items.push(Value::Null),
                        Ty::List(_) => items.push(Value::from(7)),
                        Ty::Named(_) => return None,
                    }
                    faulted.push(ipath);
                    continue;
                }
                let sub_idx = if depth == 0 { i } else { idx * 4 + i };
                items.push(dyn_plain_list(def, inner, d, &ipath, depth + 1, sub_idx, faulted)?);
            }
            Some(Value::List(items))
        }
        Ty::Named(_) => {
            if depth == 0 {
                return None;
            }
            match def.ret {
                Ret::Int => Some(Value::from(d.int(def.salt * 8 + idx))),
                Ret::Color => Some(Value::Enum(Name::new(match d.color(def.salt) {
                    Color::Red => "RED",
                    Color::Green => "GREEN",
                    Color::Blue => "BLUE",
                }))),
                _ => None,
            }
        }
    }
}

fn dyn_value_for<'a>(def: &FDef, ty: &Ty, d: NodeData, path: &str, depth: u32, idx: u32) -> Option<d::FieldValue<'a>> {
    match ty {
        Ty::NonNull(inner) => dyn_value_for(def, inner, d, path, depth, idx),
        Ty::List(inner) => {
            // half of the scalar lists (chosen by path) are handed back as one plain Value::List
            if depth == 0 && matches!(def.ret, Ret::Int | Ret::Color) && crate::core::tape::hash_str(path) % 2 == 1 {
                let mut faulted = vec![];
                if let Some(v) = dyn_plain_list(def, ty, d, path, depth, idx, &mut faulted) {
                    for ipath in faulted {
                        sim::count("fault:list-item-invalid");
                        world(|w| {
                            let seq = w.log.len();
                            w.log.push(REvent { seq, kind: RKind::Failed(Fault::InvalidValue), path: ipath.clone(), parent: String::new(), field: def.name.to_string(), line: 0, col: 0, node_id: d.id, ev: d.ev });
                        });
                    }
                    sim::count("probe:dynamic-list-as-plain-value");
                    return Some(d::FieldValue::value(v));
                }
            }
            let n = if depth == 0 { d.len(def.salt) } else { d.len(def.salt + idx + 1).min(2) };
            let mut items = Vec::new();
            for i in 0..n {
                let ipath = format!("{path}.{i}");
                if world(|w| w.item_faults.contains_key(&ipath)) {
                    sim::count("fault:list-item-invalid");
                    world(|w| {
                        let seq = w.log.len();
                        w.log.push(REvent { seq, kind: RKind::Failed(Fault::InvalidValue), path: ipath.clone(), parent: String::new(), field: def.name.to_string(), line: 0, col: 0, node_id: d.id, ev: d.ev });
                    });
                    items.push(d::FieldValue::owned_any(Bogus).with_type("Bogus"));
                    continue;
                }
                let sub_idx = if depth == 0 { i } else { idx * 4 + i };
                items.push(dyn_value_for(def, inner, d, &ipath, depth + 1, sub_idx).unwrap_or(d::FieldValue::NULL));
            }
            Some(d::FieldValue::list(items))
        }
        Ty::Named(_) => {
            let leaf_idx = if depth == 0 { 0 } else { idx };
            match def.ret {
                Ret::Int => {
                    if depth == 0 {
                        if def.name == "id" {
                            Some(d::FieldValue::value(d.id))
                        } else if ty_nullable_top(def) && def.name != "g" && def.name != "echo" && d.natural_null(def.salt) {
                            None
                        } else {
                            Some(d::FieldValue::value(d.int(def.salt)))
                        }
                    } else {
                        Some(d::FieldValue::value(d.int(def.salt * 8 + leaf_idx)))
                    }
                }
                Ret::Color => {
                    if depth == 0 && ty_nullable_top(def) && d.natural_null(def.salt) {
                        None
                    } else {
                        let c = match d.color(def.salt) {
                            Color::Red => "RED",
                            Color::Green => "GREEN",
                            Color::Blue => "BLUE",
                        };
                        Some(d::FieldValue::value(Value::Enum(Name::new(c))))
                    }
                }
                Ret::Node => {
                    if depth == 0 && ty_nullable_top(def) && d.natural_null(def.salt) {
                        None
                    } else {
                        Some(d::FieldValue::owned_any(d.child(def.salt, leaf_idx)))
                    }
                }
                Ret::Leaf => {
                    if depth == 0 && ty_nullable_top(def) && d.natural_null(def.salt) {
                        None
                    } else {
                        Some(d::FieldValue::owned_any(d.child(def.salt, leaf_idx)))
                    }
                }
                Ret::Ent | Ret::Uni => {
                    if depth == 0 && ty_nullable_top(def) && d.natural_null(def.salt) {
                        None
                    } else {
                        let c = d.child(def.salt, leaf_idx);
                        let t = if d.is_node(def.salt, leaf_idx) { "Node" } else { "Leaf" };
                        Some(d::FieldValue::owned_any(c).with_type(t))
                    }
                }
            }
        }
    }
}

struct Bogus;

fn ty_nullable_top(def: &FDef) -> bool {
    !def.ty.ends_with('!')
}

fn dyn_field(parent: &'static str, def: &'static FDef) -> d::Field {
    let ty = Ty::parse(def.ty);
    let tyref = ty.to_dyn();
    let mut field = d::Field::new(def.name, tyref, move |rc: d::ResolverContext<'_>| {
        let ty = Ty::parse(def.ty);
        d::FieldFuture::new(async move {
            let data: NodeData = match rc.parent_value.downcast_ref::<NodeData>() {
                Some(d) => *d,
                None => NodeData { id: 1, ev: 0 },
            };
            let path = path_of(rc.ctx);
            match enter(rc.ctx, parent, def.name, data).await {
                Some(Fault::ResolverError) | Some(Fault::GuardReject) => Err(err(Fault::ResolverError, &path)),
                Some(Fault::NullForNonNull) => {
                    if ty.nullable() {
                        // not a fault on a nullable type: behaves as a resolver error instead
                        note_failed(rc.ctx, parent, def.name, data, Fault::ResolverError);
                        return Err(err(Fault::ResolverError, &path));
                    }
                    note_failed(rc.ctx, parent, def.name, data, Fault::NullForNonNull);
                    // "nothing" for a non-null type, in one of the two ways the API offers
                    // (a null *value* only for leaf types: for an object type `Value::Null` is the
                    // accepted idiom for "an object without data", pinned by the library's own tests)
                    let leaf = matches!(def.ret, Ret::Int | Ret::Color) && !matches!(ty.unwrap_nn(), Ty::List(_));
                    if !leaf || hash_str(&path) % 2 == 0 {
                        Ok(None)
                    } else {
                        sim::count("fault:null-value-for-non-null");
                        Ok(Some(d::FieldValue::NULL))
                    }
                }
                Some(Fault::InvalidValue) => {
                    note_failed(rc.ctx, parent, def.name, data, Fault::InvalidValue);
                    // a value that cannot be of the declared type
                    Ok(Some(match (ty.unwrap_nn(), def.ret) {
                        (Ty::List(_), _) => d::FieldValue::value(7),
                        (_, Ret::Int) => d::FieldValue::owned_any(Bogus),
                        (_, Ret::Color) => d::FieldValue::value(Value::Enum(Name::new("PURPLE"))),
                        (_, Ret::Ent) | (_, Ret::Uni) => d::FieldValue::owned_any(data).with_type("Query"),
                        (_, Ret::Node) | (_, Ret::Leaf) => d::FieldValue::owned_any(data).with_type("Leaf"),
                    }))
                }
                None => {
                    if def.arg {
                        let n = rc.args.try_get("n").and_then(|v| v.i64()).unwrap_or(0);
                        return Ok(Some(d::FieldValue::value(n as i32)));
                    }
                    Ok(dyn_value_for(def, &ty, data, &path, 0, 0))
                }
            }
        })
    });
    if def.arg {
        field = field.argument(d::InputValue::new("n", d::TypeRef::named_nn(d::TypeRef::INT)));
    }
    field
}

fn dyn_object(name: &'static str, fields: &'static [FDef]) -> d::Object {
    let mut o = d::Object::new(name);
    for fd in fields {
        o = o.field(dyn_field(name, fd));
    }
    o
}

fn dyn_sub_field(def: &'static FDef) -> d::SubscriptionField {
    let ty = Ty::parse(def.ty);
    d::SubscriptionField::new(def.name, ty.to_dyn(), move |rc: d::ResolverContext<'_>| {
        d::SubscriptionFieldFuture::new(async move {
            let ch = rc.args.try_get("ch").and_then(|v| v.i64()).unwrap_or(0) as i32;
            let path = path_of(rc.ctx);
            sim::log_order(format!("sub create {path} ch={ch}"));
            sim::gate(latency_for(&format!("{path}#create"))).await;
            if world(|w| w.sub_create_fail.get(&ch).cloned().unwrap_or(false)) {
                sim::count("fault:stream-create-error");
                note_failed(rc.ctx, "Subscription", def.name, NodeData { id: -1, ev: -1 }, Fault::ResolverError);
                return Err(Error::new(format!("injected stream-create-error at {path}")));
            }
            let rx = take_channel(ch).ok_or_else(|| Error::new("harness: no such channel"))?;
            let is_ticks = def.ret == Ret::Int;
            let (dpath, dpos) = (path.clone(), (rc.ctx.item.pos.line, rc.ctx.item.pos.column));
            Ok(rx.map(move |it| match it {
                SubItem::Node(id) => {
                    if is_ticks {
                        Ok(d::FieldValue::value(id))
                    } else {
                        Ok(d::FieldValue::owned_any(NodeData { id, ev: id }))
                    }
                }
                SubItem::Null => Ok(d::FieldValue::value(0)),
                SubItem::Err(id) => {
                    note_stream_item_error(&dpath, def.name, dpos, id);
                    Err(Error::new("injected stream-item-error"))
                }
            }))
        })
    })
    .argument(d::InputValue::new("ch", d::TypeRef::named_nn(d::TypeRef::INT)))
}

pub fn build_dynamic(n_ext: usize) -> d::Schema {
    let color = d::Enum::new("Color").item("RED").item("GREEN").item("BLUE");
    let ent = d::Interface::new("Ent")
        .field(d::InterfaceField::new("id", d::TypeRef::named_nn(d::TypeRef::INT)))
        .field(d::InterfaceField::new("w", d::TypeRef::named(d::TypeRef::INT)))
        .field(d::InterfaceField::new("req", d::TypeRef::named_nn(d::TypeRef::INT)));
    let uni = d::Union::new("Uni").possible_type("Node").possible_type("Leaf");
    let node = dyn_object("Node", NODE_FIELDS).implement("Ent");
    let leaf = dyn_object("Leaf", LEAF_FIELDS).implement("Ent");
    let query = dyn_object("Query", NODE_FIELDS);
    let mutation = dyn_object("Mutation", NODE_FIELDS);
    let mut sub = d::Subscription::new("Subscription");
    for fd in SUB_FIELDS {
        sub = sub.field(dyn_sub_field(fd));
    }
    let mut b = d::Schema::build("Query", Some("Mutation"), Some("Subscription"))
        .register(color)
        .register(ent)
        .register(uni)
        .register(node)
        .register(leaf)
        .register(query)
        .register(mutation)
        .register(sub);
    for i in 0..n_ext {
        b = b.extension(super::exts::RecExtFactory(i));
    }
    b.finish().expect("dynamic harness schema")
}

/// A pass-through custom directive (`@noop` on fields): it may suspend before delegating.
struct Noop;

#[async_trait::async_trait]
impl async_graphql::CustomDirective for Noop {
    async fn resolve_field(&self, ctx: &Context<'_>, resolve: async_graphql::ResolveFut<'_>) -> async_graphql::ServerResult<Option<Value>> {
        let lat = latency_for(&format!("{}#directive", path_of(ctx)));
        if lat > 0 {
            sim::count("probe:custom-directive-suspended");
        }
        sim::gate(lat).await;
        resolve.await
    }
}

#[async_graphql::Directive(location = "Field")]
fn noop() -> impl async_graphql::CustomDirective {
    Noop
}

pub fn build_static(n_ext: usize) -> StaticSchema {
    let mut b = Schema::build(Query, Mutation, Sub).directive(noop);
    for i in 0..n_ext {
        b = b.extension(super::exts::RecExtFactory(i));
    }
    b.finish()
}

pub fn static_schema(n_ext: usize) -> &'static StaticSchema {
    static S: [OnceLock<StaticSchema>; 4] = [OnceLock::new(), OnceLock::new(), OnceLock::new(), OnceLock::new()];
    S[n_ext].get_or_init(|| build_static(n_ext))
}

pub fn dynamic_schema(n_ext: usize) -> &'static d::Schema {
    static S: [OnceLock<d::Schema>; 4] = [OnceLock::new(), OnceLock::new(), OnceLock::new(), OnceLock::new()];
    S[n_ext].get_or_init(|| build_dynamic(n_ext))
}

#[allow(dead_code)]
fn _unused(_: EmptySubscription) {}

/// Both flavours must describe the same type system (harness self-check; a mismatch is a harness error).
pub fn check_sdl() -> std::result::Result<(), String> {
    fn norm(s: &str) -> Vec<String> {
        let mut v: Vec<String> = s.lines().map(|l| l.trim().to_string()).filter(|l| !l.is_empty() && !l.starts_with('#') && !l.starts_with('"') && !l.starts_with("directive @noop")).collect();
        v.sort();
        v
    }
    let a = norm(&static_schema(0).sdl());
    let b = norm(&dynamic_schema(0).sdl());
    if a != b {
        let only_a: Vec<_> = a.iter().filter(|l| !b.contains(l)).cloned().collect();
        let only_b: Vec<_> = b.iter().filter(|l| !a.contains(l)).cloned().collect();
        return Err(format!("static and dynamic harness schemas differ: static only {:?}; dynamic only {:?}", only_a, only_b));
    }
    Ok(())
}
