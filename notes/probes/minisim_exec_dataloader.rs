use async_graphql::*;
use async_graphql::dataloader::{DataLoader, Loader, HashMapCache};
use async_graphql::runtime::Timer;
use futures_util::{future::BoxFuture, task::{FutureObj, Spawn, SpawnError}, FutureExt};
use std::{cell::RefCell, collections::{BTreeMap, HashMap, BinaryHeap}, cmp::Reverse, future::Future, pin::Pin, sync::{Arc, Mutex}, task::{Context as Cx, Poll, Wake, Waker}, time::Duration};

// ---- mini sim ----
#[derive(Default)]
struct Sim { now: u64, seq: u64, rng: u64, heap: BinaryHeap<Reverse<(u64,u64,u64)>>, open: BTreeMap<u64,bool>, wakers: BTreeMap<u64,Waker>, next_gate: u64,
    tasks: Vec<Option<Pin<Box<dyn Future<Output=()> + Send>>>>, woken: Arc<Mutex<Vec<usize>>>, log: Vec<String> }
thread_local!{ static SIM: RefCell<Sim> = RefCell::new(Sim::default()); }
fn draw(n: u64) -> u64 { SIM.with(|s| { let mut s = s.borrow_mut(); s.rng = s.rng.wrapping_add(0x9e3779b97f4a7c15); let mut z = s.rng; z = (z ^ (z>>30)).wrapping_mul(0xbf58476d1ce4e5b9); z = (z ^ (z>>27)).wrapping_mul(0x94d049bb133111eb); (z ^ (z>>31)) % n }) }
struct Gate(u64);
fn gate(lat: u64) -> Gate { SIM.with(|s| { let mut s = s.borrow_mut(); let id = s.next_gate; s.next_gate += 1; let at = s.now + lat; s.seq += 1; let sq = s.seq; s.heap.push(Reverse((at, sq, id))); s.open.insert(id, false); Gate(id) }) }
impl Future for Gate { type Output = (); fn poll(self: Pin<&mut Self>, cx: &mut Cx<'_>) -> Poll<()> { SIM.with(|s| { let mut s = s.borrow_mut(); if s.open[&self.0] { Poll::Ready(()) } else { s.wakers.insert(self.0, cx.waker().clone()); Poll::Pending } }) } }
struct TW(usize, Arc<Mutex<Vec<usize>>>);
impl Wake for TW { fn wake(self: Arc<Self>) { self.1.lock().unwrap().push(self.0) } }
fn spawn(f: Pin<Box<dyn Future<Output=()> + Send>>) { SIM.with(|s| { let mut s = s.borrow_mut(); let id = s.tasks.len(); s.tasks.push(Some(f)); s.woken.lock().unwrap().push(id); }) }
fn run() { loop {
    let next = SIM.with(|s| { let s = s.borrow(); let mut w = s.woken.lock().unwrap(); if w.is_empty() { None } else { let i = 0; Some(w.remove(i)) } });
    if let Some(t) = next {
        let (fut, wk) = SIM.with(|s| { let mut s = s.borrow_mut(); let wk = s.woken.clone(); (s.tasks[t].take(), wk) });
        if let Some(mut fut) = fut { let w = Waker::from(Arc::new(TW(t, wk))); let mut cx = Cx::from_waker(&w);
            match fut.as_mut().poll(&mut cx) { Poll::Ready(()) => {}, Poll::Pending => SIM.with(|s| s.borrow_mut().tasks[t] = Some(fut)) } }
        continue; }
    let ev = SIM.with(|s| s.borrow_mut().heap.pop());
    match ev { Some(Reverse((at,_,id))) => { let w = SIM.with(|s| { let mut s = s.borrow_mut(); s.now = at; s.open.insert(id, true); s.wakers.remove(&id) }); if let Some(w) = w { w.wake() } }, None => break } } }
struct SimSpawner; impl Spawn for SimSpawner { fn spawn_obj(&self, f: FutureObj<'static, ()>) -> Result<(), SpawnError> { spawn(Box::pin(f)); Ok(()) } }
struct SimTimer; impl Timer for SimTimer { fn delay(&self, d: Duration) -> BoxFuture<'static, ()> { let g = gate(d.as_micros() as u64); async move { g.await }.boxed() } }

struct L; impl Loader<i32> for L { type Value = i32; type Error = (); async fn load(&self, keys: &[i32]) -> Result<HashMap<i32,i32>, ()> { let mut k = keys.to_vec(); k.sort(); SIM.with(|s| s.borrow_mut().log.push(format!("load{:?}", k))); gate(draw(5)).await; Ok(keys.iter().map(|k| (*k, k*10)).collect()) } }
struct Node(i32);
#[Object] impl Node {
    async fn a(&self) -> i32 { gate(draw(5)).await; self.0 }
    async fn b(&self) -> Option<Result<i32>> { gate(draw(5)).await; if draw(4)==0 { Some(Err("x".into())) } else { Some(Ok(self.0)) } }
    async fn l(&self, ctx: &Context<'_>) -> Option<i32> { gate(draw(3)).await; ctx.data_unchecked::<DataLoader<L, HashMapCache>>().load_one(self.0 % 4).await.unwrap() }
    async fn kids(&self) -> Vec<Node> { gate(draw(5)).await; if self.0 > 30 { vec![] } else { vec![Node(self.0*3+1), Node(self.0*3+2)] } }
}
struct Query; #[Object] impl Query { async fn root(&self) -> Node { Node(1) } }
fn main() {
    let schema = Schema::new(Query, EmptyMutation, EmptySubscription);
    let t0 = std::time::Instant::now(); let n = 5000; let mut distinct = std::collections::BTreeSet::new();
    for seed in 0..n {
        SIM.with(|s| { *s.borrow_mut() = Sim::default(); s.borrow_mut().rng = seed; });
        let out = Arc::new(Mutex::new(None)); let o2 = out.clone(); let sc = schema.clone();
        spawn(Box::pin(async move { let dl = DataLoader::with_cache(L, SimSpawner, SimTimer, HashMapCache::default()).max_batch_size(3);
            let r = sc.execute(Request::new("{ root { a b l kids { a b l kids { a b l kids { a l } } } } }").data(dl)).await; *o2.lock().unwrap() = Some(serde_json::to_string(&r).unwrap()); }));
        run();
        let r = out.lock().unwrap().take().expect("stalled");
        let lg = SIM.with(|s| s.borrow().log.join(";"));
        distinct.insert(lg); if seed < 2 { println!("{r}"); }
    }
    println!("{} runs in {:?} => {:?}/run; distinct loader-batch histories: {}", n, t0.elapsed(), t0.elapsed()/n as u32, distinct.len());
}
