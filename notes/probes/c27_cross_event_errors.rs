use async_graphql::*;
use futures_util::{Stream, StreamExt, task::noop_waker};
use std::{pin::Pin, task::{Context as Cx, Poll}, future::Future, collections::{HashMap, VecDeque}};
thread_local! {
    static GATES: std::cell::RefCell<HashMap<String, bool>> = Default::default();
    static WAKERS: std::cell::RefCell<Vec<std::task::Waker>> = Default::default();
    static CHANS: std::cell::RefCell<HashMap<i32, VecDeque<Option<i32>>>> = Default::default();
}
struct Gate(String);
impl Future for Gate { type Output = (); fn poll(self: Pin<&mut Self>, cx: &mut Cx<'_>) -> Poll<()> {
    if GATES.with(|g| *g.borrow().get(&self.0).unwrap_or(&false)) { Poll::Ready(()) } else { WAKERS.with(|w| w.borrow_mut().push(cx.waker().clone())); Poll::Pending } } }
fn wake_all() { let ws: Vec<_> = WAKERS.with(|w| w.borrow_mut().drain(..).collect()); for w in ws { w.wake() } }
fn open(g: &str) { GATES.with(|m| { m.borrow_mut().insert(g.to_string(), true); }); wake_all() }
struct Chan(i32);
impl Stream for Chan { type Item = i32; fn poll_next(self: Pin<&mut Self>, cx: &mut Cx<'_>) -> Poll<Option<i32>> {
    CHANS.with(|c| match c.borrow_mut().entry(self.0).or_default().pop_front() { Some(Some(v)) => Poll::Ready(Some(v)), Some(None) => Poll::Ready(None), None => { WAKERS.with(|w| w.borrow_mut().push(cx.waker().clone())); Poll::Pending } }) } }
fn push(ch: i32, v: Option<i32>) { CHANS.with(|c| c.borrow_mut().entry(ch).or_default().push_back(v)); wake_all() }
struct Ev { ch: i32, n: i32 }
#[Object]
impl Ev {
    async fn n(&self) -> i32 { self.n }
    async fn slow(&self) -> i32 { Gate(format!("slow{}:{}", self.ch, self.n)).await; self.n }
    async fn fail(&self) -> Option<Result<i32>> { Gate(format!("fail{}:{}", self.ch, self.n)).await; Some(Err(format!("E{}:{}", self.ch, self.n).into())) }
}
struct Query; #[Object] impl Query { async fn x(&self) -> i32 { 1 } }
struct Sub;
#[Subscription]
impl Sub {
    async fn a(&self) -> impl Stream<Item = Ev> { Chan(1).map(|n| Ev { ch: 1, n }) }
    async fn b(&self) -> impl Stream<Item = Ev> { Chan(2).map(|n| Ev { ch: 2, n }) }
}
fn main() {
    let schema = Schema::new(Query, EmptyMutation, Sub);
    let mut s = schema.execute_stream("subscription { a { n slow fail } b { n slow fail } }");
    let w = noop_waker(); let mut cx = Cx::from_waker(&w);
    let mut poll = |s: &mut futures_util::stream::BoxStream<'static, Response>| match s.poll_next_unpin(&mut cx) {
        Poll::Ready(Some(r)) => println!("  OUT {}", serde_json::to_string(&r).unwrap()), Poll::Ready(None) => println!("  END"), Poll::Pending => println!("  pending") };
    poll(&mut s);
    push(1, Some(10)); push(2, Some(20)); poll(&mut s);
    open("fail2:20"); poll(&mut s);
    open("fail1:10"); open("slow1:10"); poll(&mut s);
    open("slow2:20"); poll(&mut s);
}
