#!/usr/bin/env python3
"""Regenerates MANIFEST.json from the table below (kept in one place so it stays valid)."""
import json, subprocess

CLAIMED = {
 "C03": ("exec", "§3 C03", "Seeded search over generated operations x fault plans x schedules on the real executor (static and dynamic); every run is checked against a null-propagation model relative to a fault-free baseline of the same request. Sampling, not proof: a clean batch is evidence."),
 "C04": ("exec", "§3 C04", "Seeded search over operations with repeated response keys and over mutation documents, under drawn completion orders; oracle over the resolver start/finish history."),
 "C05": ("exec", "§3 C05", "Same request and fault plan executed under 5 independently drawn schedules (incl. the all-ready FIFO one the test-suite sees); responses must agree."),
 "C27": ("exec", "§3 C27", "Seeded search over event arrival orders x nested completion orders x consumer back-pressure for 1-3 subscription root fields; per-event attribution of data and errors."),
 "C30": ("exec", "§3 C30", "Differential: the same request with 0 and with 1-3 suspending pass-through extensions under independent schedules, plus a grammar check of the recorded hook trace."),
}
NA = {
 "C01": "pure function of (schema, document, variables, data): needs a reference executor over generated documents, no schedule/clock/fault involved; the schedule-dependent aspects of execution are C03-C05",
 "C02": "as C01 for dynamic schemas: pure function of the request",
 "C06": "argument coercion is a pure function of document, variables and defaults",
 "C07": "scalar domains and round-trips are pure value functions",
 "C08": "validators are pure predicates over values",
 "C09": "validation is a synchronous pure function of (schema, document, variables)",
 "C10": "depth/complexity/recursion/directive limits are synchronous pure functions of the document",
 "C11": "deterministic work count of a synchronous function; no interleaving, timer or fault to simulate",
 "C13": "parser acceptance/AST is a pure function of the text",
 "C14": "source positions are a pure function of the text",
 "C15": "value printing / JSON conversion is a pure function of a value",
 "C16": "serde round-trips are pure functions of a value",
 "C17": "SDL export is a pure function of the registry and options",
 "C18": "introspection is a pure function of (registry, request data)",
 "C19": "finite configuration matrix over pure request handling",
 "C20": "cache-control policy is computed statically from the document during validation",
 "C21": "secret redaction is a pure function of (document, variables, registry)",
 "C22": "look-ahead / selection views are pure functions of the prepared document",
 "C32": "cursor and pagination arguments are pure value functions",
 "C33": "dynamic schema build validity is a pure function of the registered type system",
 "C34": "GraphiQL page escaping is a pure function of configuration strings",
 "C35": "GET-never-mutates is a pure classification of the decoded request inside web-framework integration crates that the simulator does not run",
}
PENDING = {}  # claimed in DESIGN.md, check not built yet -> listed as not applicable "yet" is wrong; they are simply absent

def main():
    import os, sys
    sys.path.insert(0, os.path.dirname(__file__))
    try:
        from manifest_extra import EXTRA_CLAIMED, EXTRA_NA
    except Exception:
        EXTRA_CLAIMED, EXTRA_NA = {}, {}
    claimed = dict(CLAIMED); claimed.update(EXTRA_CLAIMED)
    na = dict(NA); na.update(EXTRA_NA)
    for k in claimed: na.pop(k, None)
    commits = subprocess.run(["git","-C","/repo","log","--format=%h %s","--grep=^verif-hook"],capture_output=True,text=True).stdout.strip().splitlines()
    checks = []
    for pid,(engine,ref,text) in sorted(claimed.items()):
        checks.append({
            "property_id": pid,
            "quick_cmd": f"./check {pid} quick",
            "thorough_cmd": f"./check {pid} thorough",
            "evidence_file": f"/verif/evidence/{pid}.json",
            "replay_cmd_template": f"./check {pid} --replay {{path}}",
            "engine": engine,
            "level_claimed": {"category": "exploration", "text": text, "design_ref": ref},
            "level_note": "Trusted: the simulator (executor, event queue, gates, channels), the harness schemas/resolvers and the oracle models in /verif/sim; rustc. Assumed: thread-level pre-emption inside the library's critical sections is irrelevant (no lock is held across an await, DESIGN §2.8). A clean run is evidence over the sampled schedules and fault plans, not a proof.",
            "technique": "deterministic simulation with fault injection: seeded search over schedules and fault plans of the real code, minimised replayable tapes",
        })
    m = {
      "version": 1,
      "setup_cmd": "./check build",
      "hooks": {
        "guard": "async_graphql_verif",
        "enable": "RUSTFLAGS=\"--cfg async_graphql_verif\" (set by ./check when it builds /verif/sim against /repo)",
        "baseline_off_cmd": "cd /repo && cargo nextest run --workspace --no-fail-fast --test-threads 8 --offline",
        "source_commits": [c.split()[0] for c in commits],
        "add_only": False,
      },
      "engines": [
        {"name": "simrun", "path": "/verif/sim", "serves_properties": sorted(claimed.keys()),
         "kind_free_text": "single-threaded deterministic simulator (choice tape, discrete-event clock, real wakers, gates/channels/spawner/timer/reader seams) driving the real async-graphql code; one Rust binary"},
      ],
      "checks": checks,
      "notes": "Technique studied: deterministic simulation with fault injection. `./check <ID> quick|thorough` rebuilds the harness against /repo's working tree with --cfg async_graphql_verif, then runs the seeded search; violations are minimised and written to /verif/replays/<ID>/. Known findings: /verif/known_findings.json. See DESIGN.md.",
      "not_applicable": [{"property_id": k, "reason": v} for k,v in sorted(na.items())],
    }
    json.dump(m, open("/verif/MANIFEST.json","w"), indent=1)
    print("claimed", len(checks), "not_applicable", len(na))

main()
