//! Tape-level delta debugging.  `test` returns true while the same violation class persists.

use std::time::{Duration, Instant};

pub struct Budget {
    pub max_runs: usize,
    pub deadline: Instant,
    pub runs: usize,
}

impl Budget {
    pub fn new(max_runs: usize, secs: u64) -> Self {
        Budget { max_runs, deadline: Instant::now() + Duration::from_secs(secs), runs: 0 }
    }
    fn left(&self) -> bool {
        self.runs < self.max_runs && Instant::now() < self.deadline
    }
}

/// `test(candidate)` returns Some(normalised tape actually consumed) if the violation persists.
pub fn minimise(mut tape: Vec<u32>, budget: &mut Budget, test: &mut dyn FnMut(&[u32]) -> Option<Vec<u32>>) -> Vec<u32> {
    let mut try_candidate = |cand: Vec<u32>, cur: &mut Vec<u32>, budget: &mut Budget| -> bool {
        if !budget.left() || cand == *cur {
            return false;
        }
        budget.runs += 1;
        if let Some(norm) = test(&cand) {
            // keep the shorter / smaller of candidate and what was actually consumed
            let mut best = if norm.len() <= cand.len() { norm } else { cand };
            while best.last() == Some(&0) {
                best.pop();
            }
            if less(&best, cur) {
                *cur = best;
                return true;
            }
        }
        false
    };

    while tape.last() == Some(&0) {
        tape.pop();
    }
    let mut improved = true;
    while improved && budget.left() {
        improved = false;
        // 1. truncate suffix (binary search on the length)
        let mut lo = 0usize;
        let mut hi = tape.len();
        while lo < hi && budget.left() {
            let mid = (lo + hi) / 2;
            let cand = tape[..mid].to_vec();
            if try_candidate(cand, &mut tape, budget) {
                improved = true;
                hi = tape.len().min(mid);
            } else {
                lo = mid + 1;
            }
        }
        // 2. delete blocks
        let mut size = (tape.len() / 2).max(1);
        while size >= 1 && budget.left() {
            let mut i = 0;
            while i + size <= tape.len() && budget.left() {
                let mut cand = tape.clone();
                cand.drain(i..i + size);
                if try_candidate(cand, &mut tape, budget) {
                    improved = true;
                } else {
                    i += size;
                }
            }
            if size == 1 {
                break;
            }
            size /= 2;
        }
        // 3. zero blocks
        let mut size = (tape.len() / 2).max(1);
        while size >= 1 && budget.left() {
            let mut i = 0;
            while i + size <= tape.len() && budget.left() {
                if tape[i..i + size].iter().any(|v| *v != 0) {
                    let mut cand = tape.clone();
                    for v in &mut cand[i..i + size] {
                        *v = 0;
                    }
                    if try_candidate(cand, &mut tape, budget) {
                        improved = true;
                    }
                }
                i += size;
            }
            if size == 1 {
                break;
            }
            size /= 2;
        }
        // 4. lower single values
        let mut i = 0;
        while i < tape.len() && budget.left() {
            let v = tape[i];
            if v > 0 {
                // try 0, then binary search downwards
                let mut lo = 0u32;
                let mut hi = v;
                while lo < hi && budget.left() {
                    let mid = lo + (hi - lo) / 2;
                    let mut cand = tape.clone();
                    if i >= cand.len() {
                        break;
                    }
                    cand[i] = mid;
                    if try_candidate(cand, &mut tape, budget) {
                        improved = true;
                        if i >= tape.len() {
                            break;
                        }
                        hi = tape[i].min(mid);
                    } else {
                        lo = mid + 1;
                    }
                }
            }
            i += 1;
        }
    }
    tape
}

fn less(a: &[u32], b: &[u32]) -> bool {
    if a.len() != b.len() {
        return a.len() < b.len();
    }
    let sa: u64 = a.iter().map(|v| *v as u64).sum();
    let sb: u64 = b.iter().map(|v| *v as u64).sum();
    if sa != sb {
        return sa < sb;
    }
    a < b
}
