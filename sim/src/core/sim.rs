//! Single-threaded deterministic simulator: discrete-event clock, event queue, tasks with real
//! wakers, gates, channels, spawner and timer seams.  One instance per worker thread (thread-local).

use std::{
    cell::RefCell,
    collections::BTreeMap,
    future::Future,
    pin::Pin,
    rc::Rc,
    sync::{Arc, Mutex},
    task::{Context, Poll, Wake, Waker},
    time::Duration,
};

use futures_util::{
    future::BoxFuture,
    task::{FutureObj, Spawn, SpawnError},
    FutureExt, Stream,
};

use super::tape::Tape;

pub type LocalFut = Pin<Box<dyn Future<Output = ()> + 'static>>;

enum Ev {
    Open(usize),
    Call(Box<dyn FnOnce() + 'static>),
}

struct GateSt {
    open: bool,
    waker: Option<Waker>,
}

struct TaskSt {
    fut: Option<LocalFut>,
    name: String,
    done: bool,
    cancelled: bool,
    prio: u32,
    polls: u64,
}

#[derive(Default)]
struct Woken {
    list: Vec<usize>,
    flag: Vec<bool>,
}

impl Woken {
    fn push(&mut self, id: usize) {
        if self.flag.len() <= id {
            self.flag.resize(id + 1, false);
        }
        if !self.flag[id] {
            self.flag[id] = true;
            self.list.push(id);
        }
    }
}

struct TaskWaker {
    id: usize,
    woken: Arc<Mutex<Woken>>,
}

impl Wake for TaskWaker {
    fn wake(self: Arc<Self>) {
        self.woken.lock().unwrap().push(self.id);
    }
    fn wake_by_ref(self: &Arc<Self>) {
        self.woken.lock().unwrap().push(self.id);
    }
}

#[derive(Clone, Copy, Debug, PartialEq, Eq)]
pub enum Policy {
    Fifo,
    Random,
    Lifo,
    Pct,
    Starve,
}

#[derive(Clone, Copy, Debug)]
pub struct Params {
    pub policy: Policy,
    /// 0: events fire only when nothing is runnable; 1: due events may fire before a runnable task
    /// is polled; 2: later events too (the runnable task is slow); 3: both, less often
    pub batch_mode: u32,
    /// 0 = never; else 1/n chance per step of a legal spurious wake-up
    pub spurious_den: u32,
    pub victim: usize,
    /// events due at the same simulated time fire in the order they were scheduled instead of in a
    /// drawn order (used where two executions must see identical timing)
    pub fifo_ties: bool,
}

impl Default for Params {
    fn default() -> Self {
        Params { policy: Policy::Fifo, batch_mode: 0, spurious_den: 0, victim: usize::MAX, fifo_ties: false }
    }
}

#[derive(Debug, PartialEq, Eq, Clone, Copy)]
pub enum End {
    Quiescent,
    StepCap,
}

pub struct Sim {
    tape: Tape,
    now: u64,
    seq: u64,
    events: BTreeMap<(u64, u64), Ev>,
    gates: Vec<GateSt>,
    tasks: Vec<TaskSt>,
    woken: Arc<Mutex<Woken>>,
    log_hash: u64,
    order_hash: u64,
    lines: Option<Vec<String>>,
    stats: BTreeMap<String, u64>,
    params: Params,
    steps: u64,
    sim_time_total: u64,
    execs: u64,
    max_inflight: usize,
}

impl Sim {
    fn new() -> Self {
        Sim {
            tape: Tape::replay(vec![]),
            now: 0,
            seq: 0,
            events: BTreeMap::new(),
            gates: Vec::new(),
            tasks: Vec::new(),
            woken: Arc::new(Mutex::new(Woken::default())),
            log_hash: 0xcbf2_9ce4_8422_2325,
            order_hash: 0xcbf2_9ce4_8422_2325,
            lines: None,
            stats: BTreeMap::new(),
            params: Params::default(),
            steps: 0,
            sim_time_total: 0,
            execs: 0,
            max_inflight: 0,
        }
    }
}

thread_local! {
    static SIM: RefCell<Sim> = RefCell::new(Sim::new());
}

fn with<R>(f: impl FnOnce(&mut Sim) -> R) -> R {
    SIM.with(|s| f(&mut s.borrow_mut()))
}

fn fnv(h: &mut u64, bytes: &[u8]) {
    for b in bytes {
        *h ^= *b as u64;
        *h = h.wrapping_mul(0x0000_0100_0000_01b3);
    }
    *h ^= 0xff;
    *h = h.wrapping_mul(0x0000_0100_0000_01b3);
}

// ------------------------------------------------------------------------------------------------
// run lifecycle

/// Start a new run on this thread: fresh simulator state driven by `tape`.
pub fn reset(tape: Tape, verbose: bool) {
    // drop old futures outside the borrow
    let old = with(|s| std::mem::replace(s, Sim::new()));
    drop(old);
    with(|s| {
        s.tape = tape;
        s.lines = if verbose { Some(Vec::new()) } else { None };
    });
    futures_util::__private::async_await::__verif_reseed(0x5eed_0000_0000_0001);
}

pub struct RunRecord {
    pub tape: Vec<u32>,
    pub overdrawn: bool,
    pub log_hash: u64,
    pub order_hash: u64,
    pub lines: Vec<String>,
    pub stats: BTreeMap<String, u64>,
    pub sim_time: u64,
    pub execs: u64,
    pub max_inflight: usize,
}

/// Finish the run: returns the recorded tape and everything measured.
pub fn finish() -> RunRecord {
    let old = with(|s| std::mem::replace(s, Sim::new()));
    let Sim { tape, log_hash, order_hash, lines, stats, sim_time_total, now, execs, max_inflight, events, gates, tasks, .. } = old;
    drop(tasks);
    drop(events);
    drop(gates);
    RunRecord {
        tape: tape.rec.clone(),
        overdrawn: tape.overdrawn,
        log_hash,
        order_hash,
        lines: lines.unwrap_or_default(),
        stats,
        sim_time: sim_time_total + now,
        execs,
        max_inflight,
    }
}

/// Begin a new simulated execution inside the same run (clock, events, tasks are fresh; the tape,
/// log and statistics continue).
pub fn begin_exec(label: &str) {
    let (tasks, events, gates) = with(|s| {
        s.sim_time_total += s.now;
        s.now = 0;
        s.steps = 0;
        s.execs += 1;
        s.woken = Arc::new(Mutex::new(Woken::default()));
        (std::mem::take(&mut s.tasks), std::mem::take(&mut s.events), std::mem::take(&mut s.gates))
    });
    drop(tasks);
    drop(events);
    drop(gates);
    with(|s| s.params = Params::default());
    log(format!("== exec {label}"));
}

/// Draw the scheduling parameters of this execution from the tape (swarm style).
pub fn draw_params() -> Params {
    let policy = match draw(5) {
        0 => Policy::Fifo,
        1 => Policy::Random,
        2 => Policy::Lifo,
        3 => Policy::Pct,
        _ => Policy::Starve,
    };
    let batch_mode = draw(4);
    let spurious_den = match draw(4) {
        0 | 1 => 0,
        2 => 16,
        _ => 4,
    };
    let victim = if policy == Policy::Starve { draw(6) as usize } else { usize::MAX };
    let p = Params { policy, batch_mode, spurious_den, victim, fifo_ties: false };
    set_params(p);
    p
}

pub fn set_params(p: Params) {
    with(|s| s.params = p);
    count(&format!("policy:{:?}", p.policy));
    log(format!("params {:?}", p));
}

pub fn params() -> Params {
    with(|s| s.params)
}

// ------------------------------------------------------------------------------------------------
// tape, log, counters

pub fn draw(n: u32) -> u32 {
    with(|s| s.tape.draw(n))
}

/// true with probability num/den; 0 on the tape means false.
pub fn chance(num: u32, den: u32) -> bool {
    if num == 0 {
        return false;
    }
    draw(den) >= den - num.min(den)
}

/// index into weights; index 0 should be the simplest choice.
pub fn weighted(weights: &[u32]) -> usize {
    let total: u32 = weights.iter().sum();
    let mut v = draw(total);
    for (i, w) in weights.iter().enumerate() {
        if v < *w {
            return i;
        }
        v -= w;
    }
    0
}

pub fn now() -> u64 {
    with(|s| s.now)
}

pub fn log(line: String) {
    with(|s| {
        fnv(&mut s.log_hash, line.as_bytes());
        if let Some(l) = s.lines.as_mut() {
            let t = s.now;
            if l.len() < 20_000 {
                l.push(format!("[t={t}] {line}"));
            } else if l.len() == 20_000 {
                l.push("… trace truncated after 20000 lines".to_string());
            }
        }
    })
}

/// A log entry that also contributes to the "interleaving" hash used to count distinct schedules.
pub fn log_order(line: String) {
    with(|s| fnv(&mut s.order_hash, line.as_bytes()));
    log(line);
}

pub fn verbose() -> bool {
    with(|s| s.lines.is_some())
}

pub fn count(name: &str) {
    count_n(name, 1);
}

pub fn count_n(name: &str, n: u64) {
    with(|s| {
        if let Some(v) = s.stats.get_mut(name) {
            *v += n;
        } else {
            s.stats.insert(name.to_string(), n);
        }
    })
}

pub fn note_inflight(n: usize) {
    with(|s| s.max_inflight = s.max_inflight.max(n));
}

// ------------------------------------------------------------------------------------------------
// events and gates

fn push_event(s: &mut Sim, delay: u64, ev: Ev) {
    s.seq += 1;
    let key = (s.now + delay, s.seq);
    s.events.insert(key, ev);
}

/// Run `f` at simulated time now + delay.
pub fn at(delay: u64, f: impl FnOnce() + 'static) {
    with(|s| push_event(s, delay, Ev::Call(Box::new(f))));
}

pub struct Gate {
    id: usize,
    epoch: Arc<Mutex<Woken>>,
}

/// A future that completes `latency` simulated microseconds from now.  Latency 0 is ready at once.
pub fn gate(latency: u64) -> Gate {
    with(|s| {
        let id = s.gates.len();
        s.gates.push(GateSt { open: latency == 0, waker: None });
        if latency > 0 {
            push_event(s, latency, Ev::Open(id));
        }
        Gate { id, epoch: s.woken.clone() }
    })
}

/// A gate that is opened explicitly by the scenario.
pub fn manual_gate() -> (GateHandle, Gate) {
    with(|s| {
        let id = s.gates.len();
        s.gates.push(GateSt { open: false, waker: None });
        (GateHandle { id, epoch: s.woken.clone() }, Gate { id, epoch: s.woken.clone() })
    })
}

#[derive(Clone)]
pub struct GateHandle {
    id: usize,
    epoch: Arc<Mutex<Woken>>,
}

impl GateHandle {
    pub fn open(&self) {
        let w = with(|s| {
            if !Arc::ptr_eq(&self.epoch, &s.woken) {
                return None;
            }
            let g = &mut s.gates[self.id];
            g.open = true;
            g.waker.take()
        });
        if let Some(w) = w {
            w.wake();
        }
    }
}

impl Future for Gate {
    type Output = ();
    fn poll(self: Pin<&mut Self>, cx: &mut Context<'_>) -> Poll<()> {
        with(|s| {
            if !Arc::ptr_eq(&self.epoch, &s.woken) {
                // a gate from an earlier execution: never completes
                return Poll::Pending;
            }
            let g = &mut s.gates[self.id];
            if g.open {
                Poll::Ready(())
            } else {
                g.waker = Some(cx.waker().clone());
                Poll::Pending
            }
        })
    }
}

/// Give the scheduler a chance (and its step cap a grip) inside loops that may never block.
pub fn yield_now() -> YieldNow {
    YieldNow(false)
}

pub struct YieldNow(bool);

impl Future for YieldNow {
    type Output = ();
    fn poll(mut self: Pin<&mut Self>, cx: &mut Context<'_>) -> Poll<()> {
        if self.0 {
            Poll::Ready(())
        } else {
            self.0 = true;
            cx.waker().wake_by_ref();
            Poll::Pending
        }
    }
}

/// sleep for `latency` simulated microseconds
pub async fn sleep(latency: u64) {
    gate(latency).await
}

// ------------------------------------------------------------------------------------------------
// tasks

#[derive(Clone, Copy, PartialEq, Eq, Debug)]
pub struct TaskId(pub usize);

pub fn spawn_local(name: &str, fut: impl Future<Output = ()> + 'static) -> TaskId {
    let prio = if with(|s| s.params.policy == Policy::Pct) { 1 + draw(64) } else { 0 };
    with(|s| {
        let id = s.tasks.len();
        s.tasks.push(TaskSt { fut: Some(Box::pin(fut)), name: name.to_string(), done: false, cancelled: false, prio, polls: 0 });
        s.woken.lock().unwrap().push(id);
        TaskId(id)
    })
}

pub struct Slot<T>(Rc<RefCell<Option<T>>>);

impl<T> Clone for Slot<T> {
    fn clone(&self) -> Self {
        Slot(self.0.clone())
    }
}

impl<T> Slot<T> {
    pub fn take(&self) -> Option<T> {
        self.0.borrow_mut().take()
    }
    pub fn is_some(&self) -> bool {
        self.0.borrow().is_some()
    }
}

pub fn spawn_slot<T: 'static>(name: &str, fut: impl Future<Output = T> + 'static) -> (TaskId, Slot<T>) {
    let slot = Slot(Rc::new(RefCell::new(None)));
    let s2 = slot.clone();
    let id = spawn_local(name, async move {
        let v = fut.await;
        *s2.0.borrow_mut() = Some(v);
    });
    (id, slot)
}

/// Drop a task's future at whatever await point it is suspended at.
pub fn cancel(t: TaskId) {
    let fut = with(|s| {
        let st = &mut s.tasks[t.0];
        if st.done {
            return None;
        }
        st.cancelled = true;
        st.done = true;
        st.fut.take()
    });
    log_order(format!("cancel task {}", t.0));
    drop(fut);
}

pub fn task_done(t: TaskId) -> bool {
    with(|s| s.tasks[t.0].done)
}

pub fn task_polls(t: TaskId) -> u64 {
    with(|s| s.tasks[t.0].polls)
}

pub fn unfinished_tasks() -> Vec<String> {
    with(|s| s.tasks.iter().filter(|t| !t.done).map(|t| t.name.clone()).collect())
}

pub fn pending_events() -> usize {
    with(|s| s.events.len())
}

fn fire_next_event(only_due: bool) -> bool {
    // choose among the events with the smallest time
    let ev = with(|s| {
        let (&(at0, _), _) = s.events.iter().next()?;
        if only_due && at0 > s.now {
            return None;
        }
        let keys: Vec<(u64, u64)> = s.events.range((at0, 0)..=(at0, u64::MAX)).map(|(k, _)| *k).collect();
        let idx = if keys.len() > 1 && !s.params.fifo_ties { s.tape.draw(keys.len() as u32) as usize } else { 0 };
        let key = keys[idx];
        let ev = s.events.remove(&key).unwrap();
        if at0 > s.now {
            s.now = at0;
        }
        Some((key, ev))
    });
    match ev {
        None => false,
        Some((key, Ev::Open(id))) => {
            log_order(format!("ev open gate {id} (#{})", key.1));
            let w = with(|s| {
                let g = &mut s.gates[id];
                g.open = true;
                g.waker.take()
            });
            if let Some(w) = w {
                w.wake();
            }
            true
        }
        Some((key, Ev::Call(f))) => {
            log_order(format!("ev call #{}", key.1));
            f();
            true
        }
    }
}

fn poll_task(id: usize) {
    let (fut, woken) = with(|s| {
        let t = &mut s.tasks[id];
        t.polls += 1;
        (t.fut.take(), s.woken.clone())
    });
    let Some(mut fut) = fut else { return };
    log_order(format!("poll task {id}"));
    let waker = Waker::from(Arc::new(TaskWaker { id, woken }));
    let mut cx = Context::from_waker(&waker);
    match fut.as_mut().poll(&mut cx) {
        Poll::Ready(()) => {
            drop(fut);
            with(|s| {
                if id < s.tasks.len() {
                    s.tasks[id].done = true
                }
            });
            log_order(format!("task {id} done"));
        }
        Poll::Pending => with(|s| {
            if id < s.tasks.len() && !s.tasks[id].cancelled {
                s.tasks[id].fut = Some(fut);
            }
        }),
    }
}

/// Drive the simulation until nothing is runnable and no event is pending, or the step cap is hit.
pub fn run(step_cap: u64) -> End {
    loop {
        let over = with(|s| {
            s.steps += 1;
            s.steps > step_cap
        });
        if over {
            log("step cap reached".to_string());
            return End::StepCap;
        }
        let (params, runnable, have_events, have_due) = with(|s| {
            let mut w = s.woken.lock().unwrap();
            // drop finished tasks from the woken list
            let tasks = &s.tasks;
            let mut keep = Vec::with_capacity(w.list.len());
            let list = std::mem::take(&mut w.list);
            for id in list {
                if id < tasks.len() && !tasks[id].done {
                    keep.push(id);
                } else if id < w.flag.len() {
                    w.flag[id] = false;
                }
            }
            w.list = keep.clone();
            let due = s.events.iter().next().map(|(k, _)| k.0 <= s.now).unwrap_or(false);
            (s.params, keep, !s.events.is_empty(), due)
        });
        if params.spurious_den > 0 && chance(1, params.spurious_den) {
            // legal spurious wake-up of some live task
            let live: Vec<usize> = with(|s| s.tasks.iter().enumerate().filter(|(_, t)| !t.done && t.fut.is_some()).map(|(i, _)| i).collect());
            if !live.is_empty() {
                let i = live[draw(live.len() as u32) as usize];
                count("fault:spurious-wake");
                with(|s| s.woken.lock().unwrap().push(i));
                continue;
            }
        }
        if !runnable.is_empty() {
            let fire_first = match params.batch_mode {
                0 => false,
                1 => have_due && chance(1, 2),
                2 => have_events && chance(1, 2),
                _ => have_events && chance(1, 4),
            };
            if fire_first {
                let only_due = params.batch_mode == 1;
                if !have_due && !only_due {
                    count("sched:time-skip-while-runnable");
                } else {
                    count("sched:event-before-poll");
                }
                if fire_next_event(only_due) {
                    continue;
                }
            }
            let idx = match params.policy {
                Policy::Fifo => 0,
                Policy::Lifo => runnable.len() - 1,
                Policy::Random => draw(runnable.len() as u32) as usize,
                Policy::Pct => {
                    let best = with(|s| {
                        let mut best = 0;
                        for (i, id) in runnable.iter().enumerate() {
                            if s.tasks[*id].prio > s.tasks[runnable[best]].prio {
                                best = i;
                            }
                        }
                        best
                    });
                    if runnable.len() > 1 && chance(1, 8) {
                        with(|s| s.tasks[runnable[best]].prio = 0);
                    }
                    best
                }
                Policy::Starve => {
                    let non: Vec<usize> = (0..runnable.len()).filter(|i| runnable[*i] != params.victim).collect();
                    if non.is_empty() {
                        if have_events {
                            // the victim waits for everything else
                            count("sched:victim-starved");
                            if fire_next_event(false) {
                                continue;
                            }
                        }
                        0
                    } else {
                        non[draw(non.len() as u32) as usize]
                    }
                }
            };
            let id = runnable[idx];
            with(|s| {
                let mut w = s.woken.lock().unwrap();
                w.list.retain(|x| *x != id);
                if id < w.flag.len() {
                    w.flag[id] = false;
                }
            });
            poll_task(id);
        } else if have_events {
            fire_next_event(false);
        } else {
            return End::Quiescent;
        }
    }
}

/// Convenience: run one future to completion in a fresh execution. None = stalled / step cap.
pub fn block_on<T: 'static>(label: &str, params: Option<Params>, fut: impl Future<Output = T> + 'static) -> Option<T> {
    begin_exec(label);
    if let Some(p) = params {
        set_params(p);
    }
    let (_, slot) = spawn_slot("root", fut);
    run(200_000);
    slot.take()
}

// ------------------------------------------------------------------------------------------------
// seams: spawner, timer, channel

#[derive(Clone, Copy, Default)]
pub struct SimSpawner;

impl Spawn for SimSpawner {
    fn spawn_obj(&self, future: FutureObj<'static, ()>) -> Result<(), SpawnError> {
        let id = spawn_local("spawned", future);
        log_order(format!("spawn task {}", id.0));
        count("seam:spawn");
        Ok(())
    }
}

/// Timer seam. A timer may fire late (never early): lateness is drawn from the tape when enabled.
#[derive(Clone, Copy, Default)]
pub struct SimTimer {
    pub late: bool,
}

impl async_graphql::runtime::Timer for SimTimer {
    fn delay(&self, duration: Duration) -> BoxFuture<'static, ()> {
        let mut us = duration.as_micros() as u64;
        if us == 0 {
            us = 1; // a timer never completes synchronously
        }
        count("seam:timer");
        if self.late && chance(1, 4) {
            let extra = [1u64, 3, 50, 2000][draw(4) as usize];
            count("fault:timer-late");
            us += extra;
        }
        let g = gate(us);
        log(format!("timer armed +{us}"));
        async move { g.await }.boxed()
    }
}

struct ChanSt<T> {
    queue: std::collections::VecDeque<T>,
    ended: bool,
    waker: Option<Waker>,
    dropped: bool,
}

/// A stream fed by the scenario (subscription source, client inbox, response source).
pub struct ChanTx<T>(Arc<Mutex<ChanSt<T>>>);
pub struct ChanRx<T>(Arc<Mutex<ChanSt<T>>>);

impl<T> Clone for ChanTx<T> {
    fn clone(&self) -> Self {
        ChanTx(self.0.clone())
    }
}

pub fn channel<T>() -> (ChanTx<T>, ChanRx<T>) {
    let st = Arc::new(Mutex::new(ChanSt { queue: Default::default(), ended: false, waker: None, dropped: false }));
    (ChanTx(st.clone()), ChanRx(st))
}

impl<T> ChanTx<T> {
    pub fn push(&self, item: T) {
        let w = {
            let mut st = self.0.lock().unwrap();
            st.queue.push_back(item);
            st.waker.take()
        };
        if let Some(w) = w {
            w.wake();
        }
    }
    pub fn end(&self) {
        let w = {
            let mut st = self.0.lock().unwrap();
            st.ended = true;
            st.waker.take()
        };
        if let Some(w) = w {
            w.wake();
        }
    }
    pub fn receiver_dropped(&self) -> bool {
        self.0.lock().unwrap().dropped
    }
    pub fn queued(&self) -> usize {
        self.0.lock().unwrap().queue.len()
    }
}

impl<T> Stream for ChanRx<T> {
    type Item = T;
    fn poll_next(self: Pin<&mut Self>, cx: &mut Context<'_>) -> Poll<Option<T>> {
        let mut st = self.0.lock().unwrap();
        if let Some(v) = st.queue.pop_front() {
            Poll::Ready(Some(v))
        } else if st.ended {
            Poll::Ready(None)
        } else {
            st.waker = Some(cx.waker().clone());
            Poll::Pending
        }
    }
}

impl<T> Drop for ChanRx<T> {
    fn drop(&mut self) {
        self.0.lock().unwrap().dropped = true;
    }
}

impl<T> Unpin for ChanRx<T> {}
