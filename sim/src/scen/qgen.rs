//! Query generator over the harness type table.  Queries are valid by construction.

use super::world::{fields_of, FDef, Ret, Ty, ENT_FIELDS};
use crate::core::sim::{chance, draw};

#[derive(Clone, Copy)]
pub struct GenCfg {
    pub max_depth: u32,
    pub max_fields: i32,
    /// allow (and provoke) repeated response keys within one selection set
    pub dup_keys: bool,
    pub fragments: bool,
    pub directives: bool,
    pub typename: bool,
    /// leave out interface- and union-typed fields (every type condition then applies)
    pub no_abstract: bool,
    /// attach the pass-through custom directive `@noop` to some fields (static schemas only)
    pub custom_directive: bool,
}

impl GenCfg {
    pub fn for_flavour(self, is_static: bool) -> Self {
        GenCfg { custom_directive: is_static && self.directives, ..self }
    }
}

impl Default for GenCfg {
    fn default() -> Self {
        GenCfg { max_depth: 4, max_fields: 18, dup_keys: false, fragments: true, directives: true, typename: true, no_abstract: false, custom_directive: false }
    }
}

struct G {
    cfg: GenCfg,
    budget: i32,
    frags: Vec<String>,
    alias_n: u32,
    /// occurrences of every response-key path (indices left out), before merging
    occ: std::collections::BTreeMap<String, u32>,
    /// the >30-item list is selected at most once per document
    crowd_used: bool,
}

fn join(prefix: &str, key: &str) -> String {
    if prefix.is_empty() { key.to_string() } else { format!("{prefix}.{key}") }
}

fn is_composite(def: &FDef) -> bool {
    !matches!(def.ret, Ret::Int | Ret::Color)
}

impl G {
    fn field(&mut self, parent: &str, def: &FDef, depth: u32, used: &mut Vec<(String, String)>, force_key: Option<String>, prefix: &str) -> String {
        self.budget -= 1;
        let mut s = String::new();
        let args = if def.arg {
            if parent == "Subscription" { format!("(ch: {})", draw(3)) } else { format!("(n: {})", draw(5)) }
        } else {
            String::new()
        };
        let sig = format!("{}{}", def.name, args);
        let mut key = def.name.to_string();
        if let Some(k) = force_key {
            if k != def.name {
                s.push_str(&format!("{k}: "));
            }
            key = k;
        } else {
            let clash = used.iter().any(|(k, _)| *k == key);
            if clash || chance(1, 5) {
                self.alias_n += 1;
                key = format!("a{}", self.alias_n);
                s.push_str(&format!("{key}: "));
            }
        }
        let kp = join(prefix, &key);
        *self.occ.entry(kp.clone()).or_insert(0) += 1;
        used.push((key, sig.clone()));
        s.push_str(&sig);
        if self.cfg.directives && chance(1, 12) {
            s.push_str(if chance(1, 2) { " @skip(if: false)" } else { " @include(if: true)" });
        }
        if self.cfg.custom_directive && parent != "Subscription" && chance(1, 10) {
            s.push_str(" @noop");
        }
        if is_composite(def) {
            let ty = Ty::parse(def.ty);
            let mut sub_used = Vec::new();
            let sub = self.sel_set(ty.named(), depth + 1, &mut sub_used, &kp);
            s.push_str(&format!(" {{ {sub} }}"));
        }
        s
    }

    fn pick_field<'a>(&mut self, fields: &'a [FDef], depth: u32) -> &'a FDef {
        // composite fields become rarer with depth and are excluded at the depth limit
        let leaves: Vec<&FDef> = fields.iter().filter(|f| !is_composite(f)).collect();
        let no_abs = self.cfg.no_abstract;
        let comps: Vec<&FDef> = fields.iter().filter(|f| is_composite(f) && !(no_abs && matches!(f.ret, Ret::Ent | Ret::Uni))).collect();
        let want_comp = !comps.is_empty() && depth < self.cfg.max_depth && self.budget > 2 && chance(if depth == 0 { 3 } else { 2 }, 5);
        if want_comp {
            let mut pick = comps[draw(comps.len() as u32) as usize];
            if pick.name == "crowd" {
                if self.crowd_used || depth > 1 || !chance(1, 3) {
                    pick = comps[draw(comps.len() as u32 - 1) as usize]; // "crowd" is the last composite
                } else {
                    self.crowd_used = true;
                    self.budget = self.budget.min(3);
                }
            }
            pick
        } else {
            leaves[draw(leaves.len() as u32) as usize]
        }
    }

    /// selection set text for values of the named type
    fn sel_set(&mut self, ty: &str, depth: u32, used: &mut Vec<(String, String)>, prefix: &str) -> String {
        let mut parts: Vec<String> = Vec::new();
        match ty {
            "Uni" => {
                if self.cfg.typename && chance(1, 2) {
                    parts.push("__typename".into());
                }
                let which = draw(3);
                if which != 1 {
                    let inner = self.sel_set("Node", depth, used, prefix);
                    parts.push(format!("... on Node {{ {inner} }}"));
                }
                if which != 0 {
                    let inner = self.sel_set("Leaf", depth, used, prefix);
                    parts.push(format!("... on Leaf {{ {inner} }}"));
                }
            }
            "Ent" => {
                let n = 1 + draw(2);
                for _ in 0..n {
                    let name = ENT_FIELDS[draw(ENT_FIELDS.len() as u32) as usize];
                    let def = fields_of("Leaf").iter().find(|f| f.name == name).unwrap();
                    parts.push(self.field("Ent", def, depth, used, None, prefix));
                }
                if chance(1, 2) {
                    let inner = self.sel_set("Node", depth, used, prefix);
                    parts.push(format!("... on Node {{ {inner} }}"));
                }
                if chance(1, 3) {
                    let inner = self.sel_set("Leaf", depth, used, prefix);
                    parts.push(format!("... on Leaf {{ {inner} }}"));
                }
                if self.cfg.typename && chance(1, 6) {
                    parts.push("__typename".into());
                }
            }
            _ => {
                let fields = fields_of(ty);
                // now and then a selection set of more than 30 fields (large join)
                if depth == 0 && !self.cfg.dup_keys && chance(1, 40) {
                    let leaves: Vec<&FDef> = fields.iter().filter(|f| !is_composite(f) && !f.arg).collect();
                    for _ in 0..31 + draw(3) {
                        let def = *leaves[draw(leaves.len() as u32) as usize];
                        parts.push(self.field(ty, &def, depth, used, None, prefix));
                    }
                    return parts.join(" ");
                }
                let n = 1 + draw(if depth == 0 { 5 } else { 4 });
                for _ in 0..n {
                    if self.budget <= 0 && !parts.is_empty() {
                        break;
                    }
                    // repeated response key (C04 workloads)
                    if self.cfg.dup_keys && !used.is_empty() && chance(1, 3) {
                        let (key, sig) = used[draw(used.len() as u32) as usize].clone();
                        let fname = sig.split('(').next().unwrap().to_string();
                        if let Some(def) = fields.iter().find(|f| f.name == fname) {
                            // same field, same arguments, same response key
                            let mut s = String::new();
                            if key != def.name {
                                s.push_str(&format!("{key}: "));
                            }
                            s.push_str(&sig);
                            self.budget -= 1;
                            let kp = join(prefix, &key);
                            *self.occ.entry(kp.clone()).or_insert(0) += 1;
                            if is_composite(def) {
                                let t = Ty::parse(def.ty);
                                let mut sub_used = Vec::new();
                                let sub = self.sel_set(t.named(), depth + 1, &mut sub_used, &kp);
                                s.push_str(&format!(" {{ {sub} }}"));
                            }
                            let wrapped = match draw(3) {
                                0 => s,
                                1 => format!("... on {ty} {{ {s} }}"),
                                _ => {
                                    let name = format!("F{}", self.frags.len());
                                    self.frags.push(format!("fragment {name} on {ty} {{ {s} }}"));
                                    format!("...{name}")
                                }
                            };
                            parts.push(wrapped);
                            continue;
                        }
                    }
                    let def = *self.pick_field(fields, depth);
                    let wrap = if self.cfg.fragments { draw(8) } else { 0 };
                    match wrap {
                        5 => {
                            let s = self.field(ty, &def, depth, used, None, prefix);
                            parts.push(format!("... on {ty} {{ {s} }}"));
                        }
                        6 => {
                            let s = self.field(ty, &def, depth, used, None, prefix);
                            parts.push(format!("... {{ {s} }}"));
                        }
                        7 => {
                            let s = self.field(ty, &def, depth, used, None, prefix);
                            let name = format!("F{}", self.frags.len());
                            self.frags.push(format!("fragment {name} on {ty} {{ {s} }}"));
                            parts.push(format!("...{name}"));
                        }
                        _ => parts.push(self.field(ty, &def, depth, used, None, prefix)),
                    }
                }
                if self.cfg.typename && chance(1, 10) {
                    parts.push("__typename".into());
                }
                // now and then the whole selection set (or its tail) comes through one fragment
                if self.cfg.fragments && !parts.is_empty() && chance(1, 6) {
                    let from = if chance(1, 2) { 0 } else { draw(parts.len() as u32) as usize };
                    let inner = parts.split_off(from).join(" ");
                    let wrapped = match draw(4) {
                        0 => format!("... on {ty} {{ {inner} }}"),
                        1 => format!("... {{ {inner} }}"),
                        2 => format!("... on {ty} {{ ... {{ {inner} }} }}"),
                        _ => {
                            let name = format!("F{}", self.frags.len());
                            self.frags.push(format!("fragment {name} on {ty} {{ {inner} }}"));
                            format!("...{name}")
                        }
                    };
                    parts.push(wrapped);
                }
            }
        }
        parts.join(" ")
    }
}

/// `op` is "query" or "mutation".
pub fn gen_operation(op: &str, cfg: GenCfg) -> String {
    gen_operation_full(op, cfg).0
}

pub fn gen_operation_occ(op: &str, cfg: GenCfg) -> (String, std::collections::BTreeMap<String, u32>) {
    let (t, o, _) = gen_operation_full(op, cfg);
    (t, o)
}

/// Also returns the occurrences of every response-key path before merging, and the root response
/// keys in document order.
pub fn gen_operation_full(op: &str, cfg: GenCfg) -> (String, std::collections::BTreeMap<String, u32>, Vec<String>) {
    let mut g = G { cfg, budget: cfg.max_fields, frags: vec![], alias_n: 0, occ: Default::default(), crowd_used: false };
    let root = if op == "mutation" { "Mutation" } else { "Query" };
    let mut used = Vec::new();
    let body = g.sel_set(root, 0, &mut used, "");
    let mut text = format!("{op} {{ {body} }}");
    for f in &g.frags {
        text.push('\n');
        text.push_str(f);
    }
    let mut roots: Vec<String> = vec![];
    for (k, _) in &used {
        if !roots.contains(k) {
            roots.push(k.clone());
        }
    }
    (text, g.occ, roots)
}

/// A subscription document with `n_roots` root fields; returns (text, [(response key, field name, channel)]).
pub fn gen_subscription(cfg: GenCfg, n_roots: u32, same_key: bool) -> (String, Vec<(String, String, i32)>) {
    let mut g = G { cfg, budget: cfg.max_fields, frags: vec![], alias_n: 0, occ: Default::default(), crowd_used: false };
    let mut parts = vec![];
    let mut roots = vec![];
    for i in 0..n_roots {
        let defs = fields_of("Subscription");
        let def = defs[draw(2) as usize]; // events / eventsOpt
        let key = if same_key { "e".to_string() } else { format!("e{i}") };
        let mut sub_used = Vec::new();
        sub_used.push(("id".to_string(), "id".to_string()));
        let sub = g.sel_set("Node", 1, &mut sub_used, &key);
        parts.push(format!("{key}: {}(ch: {i}) {{ id {sub} }}", def.name));
        roots.push((key, def.name.to_string(), i as i32));
    }
    let mut text = format!("subscription {{ {} }}", parts.join(" "));
    for f in &g.frags {
        text.push('\n');
        text.push_str(f);
    }
    (text, roots)
}
