//! simrun — deterministic simulation with fault injection for async-graphql (see /verif/DESIGN.md).

mod core;
mod scen;

use core::check::{self, CheckDef, RunOpts};

fn defs() -> Vec<&'static CheckDef> {
    vec![&scen::c03::DEF, &scen::c04::DEF, &scen::c05::DEF, &scen::c27::DEF, &scen::c30::DEF, &scen::dl::C28, &scen::dl::C29, &scen::ws::DEF, &scen::mpsub::DEF, &scen::httpio::C23, &scen::httpio::C24, &scen::httpio::C12, &scen::apq::DEF]
}

fn usage() -> ! {
    eprintln!("usage: simrun check <ID> <quick|thorough> [--runs N] | replay <file> [--quiet] | hashes <ID> <runs> | locate <ID> <tier> | range <ID> <a> <b> | list");
    std::process::exit(2)
}

fn main() {
    let args: Vec<String> = std::env::args().skip(1).collect();
    check::install_panic_hook();
    let verif_dir = std::env::var("VERIF_DIR").unwrap_or_else(|_| "/verif".to_string());
    let seed: u64 = std::env::var("VERIF_SEED").ok().and_then(|s| s.parse().ok()).unwrap_or(1);
    let workers: usize = std::env::var("VERIF_WORKERS").ok().and_then(|s| s.parse().ok()).unwrap_or_else(|| std::thread::available_parallelism().map(|n| n.get()).unwrap_or(4));
    // upload spool files go to a directory the harness owns (single-threaded at this point), not to
    // whatever TMPDIR happens to be; a spool directory that cannot be used is a harness error, not a finding
    #[cfg(feature = "spool")]
    {
        let dir = format!("{verif_dir}/target/spool");
        match std::fs::create_dir_all(&dir) {
            Ok(()) => unsafe { std::env::set_var("TMPDIR", &dir) },
            Err(e) => eprintln!("note: cannot create {dir} ({e}); spooling uploads to the default temporary directory"),
        }
        if let Err(e) = tempfile::tempfile() {
            eprintln!("harness error: cannot create temporary files for the upload spool: {e}");
            std::process::exit(2);
        }
    }
    if let Err(e) = scen::world::check_sdl() {
        eprintln!("harness error: {e}");
        std::process::exit(2);
    }
    let defs = defs();
    match args.first().map(|s| s.as_str()) {
        Some("list") => {
            for d in &defs {
                println!("{}", d.id);
            }
        }
        Some("check") => {
            let id = args.get(1).unwrap_or_else(|| usage());
            let tier = args.get(2).map(|s| s.as_str()).unwrap_or("quick").to_string();
            let tier = std::env::var("VERIF_TIER").ok().filter(|t| t == "quick" || t == "thorough").unwrap_or(tier);
            let runs_override = args.iter().position(|a| a == "--runs").and_then(|i| args.get(i + 1)).and_then(|s| s.parse().ok());
            let Some(def) = defs.iter().find(|d| d.id == id) else {
                eprintln!("harness error: unknown check {id}");
                std::process::exit(2);
            };
            let write_evidence = !args.iter().any(|a| a == "--no-evidence");
            let code = check::run_check(def, &RunOpts { tier, seed, workers, runs_override, verif_dir, write_evidence });
            std::process::exit(code);
        }
        Some("replay") => {
            let path = args.get(1).unwrap_or_else(|| usage());
            let quiet = args.iter().any(|a| a == "--quiet");
            std::process::exit(check::replay_file(&defs, path, &verif_dir, quiet));
        }
        Some("query") => {
            // debugging aid: execute one operation against a harness schema, everything ready at once
            let dynamic = args.get(1).map(|s| s == "dynamic").unwrap_or(false);
            let q = args.get(2).cloned().unwrap_or_default();
            core::sim::reset(core::tape::Tape::replay(vec![]), false);
            scen::world::reset_world();
            let flavour = if dynamic { scen::exec::Flavour::Dynamic } else { scen::exec::Flavour::Static };
            if q.trim_start().starts_with("subscription") {
                let events: Vec<scen::exec::SubEvent> = (0..3).flat_map(|ch| vec![scen::exec::SubEvent { at: 10 + ch as u64, ch, item: Some(scen::world::SubItem::Node(100 + ch)) }, scen::exec::SubEvent { at: 50, ch, item: None }]).collect();
                let out = scen::exec::run_stream("query", flavour, 0, &q, None, 3, &events, 0);
                for r in out.responses {
                    println!("{r}");
                }
            } else {
                let out = scen::exec::run_request("query", flavour, 0, &q, None);
                println!("{}", out.resp.map(|r| r.to_string()).unwrap_or_else(|| "<did not complete>".into()));
            }
        }
        Some("range") => {
            // run the indices [start, end) of the search sequentially in this process and exit 0; used
            // by `locate` to find a run that kills the process (stack overflow, abort)
            let id = args.get(1).unwrap_or_else(|| usage());
            let start: u64 = args.get(2).and_then(|s| s.parse().ok()).unwrap_or(0);
            let end: u64 = args.get(3).and_then(|s| s.parse().ok()).unwrap_or(0);
            let Some(def) = defs.iter().find(|d| d.id == id) else { usage() };
            for idx in start..end {
                let _ = check::exec_case(def, core::tape::Tape::generate(check::case_seed(seed, def.id, idx), vec![]), false);
            }
        }
        Some("locate") => {
            // after the search process died: find the first run index that kills a process
            let id = args.get(1).unwrap_or_else(|| usage());
            let tier = args.get(2).map(|s| s.as_str()).unwrap_or("quick");
            let Some(def) = defs.iter().find(|d| d.id == id) else { usage() };
            let total = if tier == "thorough" { def.thorough_runs } else { def.quick_runs };
            std::process::exit(check::locate_abort(def, seed, total, &verif_dir));
        }
        Some("hashes") => {
            // per-run event-log hashes, for the determinism self-test
            let id = args.get(1).unwrap_or_else(|| usage());
            let runs: u64 = args.get(2).and_then(|s| s.parse().ok()).unwrap_or(1000);
            let Some(def) = defs.iter().find(|d| d.id == id) else { usage() };
            let results = std::sync::Mutex::new(std::collections::BTreeMap::new());
            let next = std::sync::atomic::AtomicU64::new(0);
            std::thread::scope(|sc| {
                for _ in 0..workers {
                    sc.spawn(|| loop {
                        let idx = next.fetch_add(1, std::sync::atomic::Ordering::Relaxed);
                        if idx >= runs {
                            break;
                        }
                        let cr = check::exec_case(def, core::tape::Tape::generate(check::case_seed(seed, def.id, idx), vec![]), false);
                        let v: Vec<String> = cr.out.viols.iter().map(|v| v.class.clone()).collect();
                        results.lock().unwrap().insert(idx, (cr.rec.log_hash, cr.rec.tape.len(), v, cr.harness_error));
                    });
                }
            });
            for (idx, (h, n, v, he)) in results.into_inner().unwrap() {
                println!("{idx} {h:016x} {n} {:?} {:?}", v, he);
            }
        }
        _ => usage(),
    }
}
