# checks added after the exec family; merged by gen_manifest.py
EXTRA_CLAIMED = {
 "C26": ("mpsub", "§3 C26", "Seeded search over interleavings of response arrivals, heartbeat expiries (incl. late), end-of-stream, consumer back-pressure and the select! coin on the real create_multipart_mixed_stream; oracle = independent strict RFC 2046 parser + exactly-once/in-order comparison."),
 "C28": ("dataloader", "§3 C28", "Seeded search over interleavings of 1-5 client tasks, spawned batch tasks, timer firings (incl. late) and loader completions on the real DataLoader, with failing/omitting loaders and cancelled waiters; oracle = history checker over invoke/return events stamped with a global sequence number."),
 "C25": ("ws", "§3 C25", "Seeded search over client scripts interleaved with subscription events, source ends, callback completions, keep-alive expiries and consumer lag on the real WebSocket state machine (both protocols, both constructors); oracle = protocol monitor over consumption points and outputs."),
 "C29": ("dataloader", "§3 C29", "Seeded search over sequential operation histories (<=40 ops) compared operation by operation with an executable reference cache (none / map / exact LRU with enable flags)."),
}
EXTRA_NA = {
 "C12": "check not built yet (planned: transport-facing surfaces, DESIGN §3 C12)",
 "C23": "check not built yet (planned, DESIGN §3 C23)",
 "C24": "check not built yet (planned, DESIGN §3 C24)",
 "C31": "check not built yet (planned, DESIGN §3 C31)",
}
