//! Recording pass-through extensions (C30): every hook logs entry/exit and may suspend on a gate
//! before and after delegating.

use std::sync::Arc;

use async_graphql::{
    extensions::{
        Extension, ExtensionContext, ExtensionFactory, NextExecute, NextParseQuery, NextPrepareRequest, NextRequest, NextResolve, NextSubscribe,
        NextValidation, ResolveInfo,
    },
    parser::types::ExecutableDocument,
    Request, Response, ServerError, ServerResult, ValidationResult, Value, Variables,
};
use futures_util::stream::BoxStream;

use super::world::{latency_for, world};
use crate::core::sim;

pub struct RecExtFactory(pub usize);

impl ExtensionFactory for RecExtFactory {
    fn create(&self) -> Arc<dyn Extension> {
        Arc::new(RecExt(self.0))
    }
}

struct RecExt(usize);

fn hook(i: usize, what: &str, dir: char) {
    let line = format!("{dir}{what}#{i}");
    sim::log_order(format!("hook {line}"));
    world(|w| w.hooks.push(line));
}

async fn pause(i: usize, what: &str, phase: &str) {
    if world(|w| w.ext_gates) {
        let lat = latency_for(&format!("ext{i}:{what}:{phase}"));
        if lat > 0 {
            sim::count("probe:extension-hook-suspended");
        }
        sim::gate(lat).await;
    }
}

#[async_trait::async_trait]
impl Extension for RecExt {
    async fn request(&self, ctx: &ExtensionContext<'_>, next: NextRequest<'_>) -> Response {
        hook(self.0, "request", '>');
        pause(self.0, "request", "pre").await;
        let r = next.run(ctx).await;
        pause(self.0, "request", "post").await;
        hook(self.0, "request", '<');
        r
    }

    fn subscribe<'s>(&self, ctx: &ExtensionContext<'_>, stream: BoxStream<'s, Response>, next: NextSubscribe<'_>) -> BoxStream<'s, Response> {
        hook(self.0, "subscribe", '>');
        let s = next.run(ctx, stream);
        hook(self.0, "subscribe", '<');
        s
    }

    async fn prepare_request(&self, ctx: &ExtensionContext<'_>, request: Request, next: NextPrepareRequest<'_>) -> ServerResult<Request> {
        hook(self.0, "prepare_request", '>');
        pause(self.0, "prepare_request", "pre").await;
        let r = next.run(ctx, request).await;
        pause(self.0, "prepare_request", "post").await;
        hook(self.0, "prepare_request", '<');
        r
    }

    async fn parse_query(&self, ctx: &ExtensionContext<'_>, query: &str, variables: &Variables, next: NextParseQuery<'_>) -> ServerResult<ExecutableDocument> {
        hook(self.0, "parse_query", '>');
        pause(self.0, "parse_query", "pre").await;
        let r = next.run(ctx, query, variables).await;
        pause(self.0, "parse_query", "post").await;
        hook(self.0, "parse_query", '<');
        r
    }

    async fn validation(&self, ctx: &ExtensionContext<'_>, next: NextValidation<'_>) -> Result<ValidationResult, Vec<ServerError>> {
        hook(self.0, "validation", '>');
        pause(self.0, "validation", "pre").await;
        let r = next.run(ctx).await;
        pause(self.0, "validation", "post").await;
        hook(self.0, "validation", '<');
        r
    }

    async fn execute(&self, ctx: &ExtensionContext<'_>, operation_name: Option<&str>, next: NextExecute<'_>) -> Response {
        hook(self.0, "execute", '>');
        pause(self.0, "execute", "pre").await;
        let r = next.run(ctx, operation_name).await;
        pause(self.0, "execute", "post").await;
        hook(self.0, "execute", '<');
        r
    }

    async fn resolve(&self, ctx: &ExtensionContext<'_>, info: ResolveInfo<'_>, next: NextResolve<'_>) -> ServerResult<Option<Value>> {
        let path = info.path_node.to_string();
        let what = format!("resolve:{path}");
        hook(self.0, &what, '>');
        pause(self.0, &what, "pre").await;
        let r = next.run(ctx, info).await;
        pause(self.0, &what, "post").await;
        hook(self.0, &what, '<');
        r
    }
}
